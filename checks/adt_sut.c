/* System under test for adtsim: thin C adapter over the container headers of /repo (compiled from the working
   tree on every check run, -DNDEBUG like the shipped configuration).  No logic of its own. */
#include <stdint.h>
#include <stddef.h>
#include "mir-alloc.h"
#include "mir-varr.h"
#include "mir-htab.h"
#include "mir-bitmap.h"
#include "mir-dlist.h"
#include "adt_sut.h"

/* ------------------------------------------------ HTAB ------------------------------------------------ */
typedef struct { int key, val; } el_t;
DEF_HTAB (el_t);

static htab_hash_t el_hash (el_t el, void *arg) {
  sut_harg_t *a = arg;
  unsigned k = (unsigned) el.key;
  if (a->on_call) a->on_call (a->u);
  switch (a->hash_mode) {
  case 0: return k;                                  /* identity: key 0 hashes to HTAB_DELETED_HASH */
  case 1: return 7;                                  /* everything collides */
  case 2: return (k & 1) ? k * 2654435761u : 0;      /* even keys hash to the reserved value 0 */
  case 3: return k * 2654435761u;
  case 4: return k << 11;                            /* low bits equal: probing driven by the perturbation */
  case 5: return 0xffffffffu - k;
  default: return (k % 3) << 30;                     /* high bits only */
  }
}
static int el_eq (el_t a, el_t b, void *arg) {
  sut_harg_t *h = arg;
  if (h->on_call) h->on_call (h->u);
  return a.key == b.key;
}
static void el_free (el_t el, void *arg) {
  sut_harg_t *h = arg;
  h->on_free (el.key, el.val, h->u);
}
void *sut_htab_create (MIR_alloc_t alloc, unsigned min_size, int with_free, sut_harg_t *arg) {
  HTAB (el_t) * h;
  if (with_free)
    HTAB_CREATE_WITH_FREE_FUNC (el_t, h, alloc, min_size, el_hash, el_eq, el_free, arg);
  else
    HTAB_CREATE (el_t, h, alloc, min_size, el_hash, el_eq, arg);
  return h;
}
int sut_htab_do (void *h, int key, int val, int action, int *rkey, int *rval) {
  el_t el = {key, val}, res = {-12345, -12345};
  int r = HTAB_DO (el_t, (HTAB (el_t) *) h, el, (enum htab_action) action, res);
  *rkey = res.key;
  *rval = res.val;
  return r;
}
void sut_htab_clear (void *h) { HTAB_CLEAR (el_t, (HTAB (el_t) *) h); }
void sut_htab_destroy (void *h) {
  HTAB (el_t) *t = h;
  HTAB_DESTROY (el_t, t);
}
unsigned sut_htab_els_num (void *h) { return HTAB_ELS_NUM (el_t, (HTAB (el_t) *) h); }
typedef struct { void (*f) (int, int, void *); void *u; } fe_t;
static void fe_tramp (el_t el, void *arg) { fe_t *fe = arg; fe->f (el.key, el.val, fe->u); }
void sut_htab_foreach (void *h, void (*f) (int, int, void *), void *u) {
  fe_t fe = {f, u};
  HTAB_FOREACH_ELEM (el_t, (HTAB (el_t) *) h, fe_tramp, &fe);
}

/* ------------------------------------------------ bitmap ---------------------------------------------- */
void *sut_bm_create (MIR_alloc_t alloc, long init_bits) {
  return init_bits < 0 ? bitmap_create (alloc) : bitmap_create2 (alloc, (size_t) init_bits);
}
void sut_bm_destroy (void *b) { bitmap_destroy ((bitmap_t) b); }
long sut_bm_op (int op, void *d, void *s1, void *s2, void *s3, size_t nb, size_t len) {
  bitmap_t D = d, S1 = s1, S2 = s2, S3 = s3;
  switch (op) {
  case BM_CLEAR: bitmap_clear (D); return 0;
  case BM_EXPAND: bitmap_expand (D, nb); return 0;
  case BM_BIT_P: return bitmap_bit_p (D, nb);
  case BM_SET_BIT_P: return bitmap_set_bit_p (D, nb);
  case BM_CLEAR_BIT_P: return bitmap_clear_bit_p (D, nb);
  case BM_SET_RANGE_P: return bitmap_set_bit_range_p (D, nb, len);
  case BM_CLEAR_RANGE_P: return bitmap_clear_bit_range_p (D, nb, len);
  case BM_COPY: bitmap_copy (D, S1); return 0;
  case BM_EQUAL_P: return bitmap_equal_p (D, S1);
  case BM_INTERSECT_P: return bitmap_intersect_p (D, S1);
  case BM_EMPTY_P: return bitmap_empty_p (D);
  case BM_BIT_COUNT: return (long) bitmap_bit_count (D);
  case BM_BIT_MIN: return (long) bitmap_bit_min (D);
  case BM_BIT_MAX: return (long) bitmap_bit_max (D);
  case BM_AND: return bitmap_and (D, S1, S2);
  case BM_AND_COMPL: return bitmap_and_compl (D, S1, S2);
  case BM_IOR: return bitmap_ior (D, S1, S2);
  case BM_IOR_AND: return bitmap_ior_and (D, S1, S2, S3);
  case BM_IOR_AND_COMPL: return bitmap_ior_and_compl (D, S1, S2, S3);
  default: return -1;
  }
}
size_t sut_bm_iter (void *b, size_t *out, size_t max) {
  bitmap_iterator_t it;
  size_t nb, n = 0;
  FOREACH_BITMAP_BIT (it, (bitmap_t) b, nb) {
    if (n < max) out[n] = nb;
    n++;
    if (n > max + 4) break; /* runaway iterator: report more than possible */
  }
  return n;
}

/* ------------------------------------------------ VARR ------------------------------------------------ */
DEF_VARR (int);
void *sut_varr_create (MIR_alloc_t alloc, size_t size) {
  VARR (int) * v;
  VARR_CREATE (int, v, alloc, size);
  return v;
}
void sut_varr_destroy (void *v) {
  VARR (int) *va = v;
  VARR_DESTROY (int, va);
}
long sut_varr_op (int op, void *vp, size_t a, int x, const int *arr) {
  VARR (int) *v = vp;
  switch (op) {
  case VA_LENGTH: return (long) VARR_LENGTH (int, v);
  case VA_CAPACITY: return (long) VARR_CAPACITY (int, v);
  case VA_LAST: return VARR_LAST (int, v);
  case VA_GET: return VARR_GET (int, v, a);
  case VA_SET: VARR_SET (int, v, a, x); return 0;
  case VA_TRUNC: VARR_TRUNC (int, v, a); return 0;
  case VA_EXPAND: return VARR_EXPAND (int, v, a);
  case VA_TAILOR: VARR_TAILOR (int, v, a); return 0;
  case VA_PUSH: VARR_PUSH (int, v, x); return 0;
  case VA_PUSH_ARR: VARR_PUSH_ARR (int, v, arr, a); return 0;
  case VA_POP: return VARR_POP (int, v);
  case VA_ADDR_GET: return VARR_ADDR (int, v)[a];
  case VA_FOREACH_SUM: {
    size_t i; int el; long s = 0;
    VARR_FOREACH_ELEM (int, v, i, el) s = s * 31 + el;
    return s;
  }
  default: return -1;
  }
}

/* ------------------------------------------------ DLIST ----------------------------------------------- */
typedef struct node *node_t;
DEF_DLIST_LINK (node_t);
struct node { int id; DLIST_LINK (node_t) link; };
DEF_DLIST (node_t, link);
typedef struct { DLIST (node_t) l; } list_t;

void *sut_dl_create (MIR_alloc_t alloc) {
  list_t *l = MIR_malloc (alloc, sizeof (list_t));
  DLIST_INIT (node_t, l->l);
  return l;
}
void *sut_dl_node (MIR_alloc_t alloc, int id) {
  node_t n = MIR_malloc (alloc, sizeof (struct node));
  n->id = id;
  return n;
}
int sut_dl_id (void *n) { return n == NULL ? -1 : ((node_t) n)->id; }
void *sut_dl_op (int op, void *lp, void *e1, void *e2, int n, long *num) {
  list_t *l = lp;
  switch (op) {
  case DL_HEAD: return DLIST_HEAD (node_t, l->l);
  case DL_TAIL: return DLIST_TAIL (node_t, l->l);
  case DL_PREV: return DLIST_PREV (node_t, (node_t) e1);
  case DL_NEXT: return DLIST_NEXT (node_t, (node_t) e1);
  case DL_EL: return DLIST_EL (node_t, l->l, n);
  case DL_PREPEND: DLIST_PREPEND (node_t, l->l, (node_t) e1); return NULL;
  case DL_APPEND: DLIST_APPEND (node_t, l->l, (node_t) e1); return NULL;
  case DL_INSERT_BEFORE: DLIST_INSERT_BEFORE (node_t, l->l, (node_t) e1, (node_t) e2); return NULL;
  case DL_INSERT_AFTER: DLIST_INSERT_AFTER (node_t, l->l, (node_t) e1, (node_t) e2); return NULL;
  case DL_REMOVE: DLIST_REMOVE (node_t, l->l, (node_t) e1); return NULL;
  case DL_LENGTH: *num = (long) DLIST_LENGTH (node_t, l->l); return NULL;
  default: return NULL;
  }
}
