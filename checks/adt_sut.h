#ifndef ADT_SUT_H
#define ADT_SUT_H
#include <stddef.h>
#ifdef __cplusplus
extern "C" {
#endif
#include "mir-alloc.h"

typedef struct sut_harg {
  int hash_mode;
  void (*on_free) (int key, int val, void *u);
  void (*on_call) (void *u); /* called from hash/eq functions: step budget */
  void *u;
} sut_harg_t;

void *sut_htab_create (MIR_alloc_t alloc, unsigned min_size, int with_free, sut_harg_t *arg);
int sut_htab_do (void *h, int key, int val, int action, int *rkey, int *rval);
void sut_htab_clear (void *h);
void sut_htab_destroy (void *h);
unsigned sut_htab_els_num (void *h);
void sut_htab_foreach (void *h, void (*f) (int, int, void *), void *u);

enum { BM_CLEAR, BM_EXPAND, BM_BIT_P, BM_SET_BIT_P, BM_CLEAR_BIT_P, BM_SET_RANGE_P, BM_CLEAR_RANGE_P, BM_COPY,
       BM_EQUAL_P, BM_INTERSECT_P, BM_EMPTY_P, BM_BIT_COUNT, BM_BIT_MIN, BM_BIT_MAX, BM_AND, BM_AND_COMPL, BM_IOR,
       BM_IOR_AND, BM_IOR_AND_COMPL, BM_ITER, BM_NOPS };
void *sut_bm_create (MIR_alloc_t alloc, long init_bits);
void sut_bm_destroy (void *b);
long sut_bm_op (int op, void *d, void *s1, void *s2, void *s3, size_t nb, size_t len);
size_t sut_bm_iter (void *b, size_t *out, size_t max);

enum { VA_LENGTH, VA_CAPACITY, VA_LAST, VA_GET, VA_SET, VA_TRUNC, VA_EXPAND, VA_TAILOR, VA_PUSH, VA_PUSH_ARR, VA_POP,
       VA_ADDR_GET, VA_FOREACH_SUM, VA_NOPS };
void *sut_varr_create (MIR_alloc_t alloc, size_t size);
void sut_varr_destroy (void *v);
long sut_varr_op (int op, void *v, size_t a, int x, const int *arr);

enum { DL_HEAD, DL_TAIL, DL_PREV, DL_NEXT, DL_EL, DL_PREPEND, DL_APPEND, DL_INSERT_BEFORE, DL_INSERT_AFTER,
       DL_REMOVE, DL_LENGTH, DL_NOPS };
void *sut_dl_create (MIR_alloc_t alloc);
void *sut_dl_node (MIR_alloc_t alloc, int id);
int sut_dl_id (void *n);
void *sut_dl_op (int op, void *l, void *e1, void *e2, int n, long *num);
#ifdef __cplusplus
}
#endif
#endif
