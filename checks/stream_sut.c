/* System under test for streamsim level A: mir-reduce.h of /repo (compiled from the working tree, -DNDEBUG). */
#include <stddef.h>
#include <stdint.h>
#include "mir-alloc.h"
#include "mir-reduce.h"
#include "stream_sut.h"
int sut_encode (MIR_alloc_t a, sut_reader_t r, sut_writer_t w, void *aux) { return reduce_encode (a, r, w, aux); }
int sut_decode (MIR_alloc_t a, sut_reader_t r, sut_writer_t w, void *aux) { return reduce_decode (a, r, w, aux); }
size_t sut_data_size (void) { return sizeof (struct reduce_data); }
size_t sut_buf_off (void) { return offsetof (struct reduce_data, buf); }
size_t sut_buf_len (void) { return _REDUCE_BUF_LEN; }
/* streaming interface as MIR_write/MIR_read use it */
void *sut_encode_start (MIR_alloc_t a, sut_writer_t w, void *aux) { return reduce_encode_start (a, w, aux); }
void sut_encode_put (void *d, int c) { reduce_encode_put (d, c); }
int sut_encode_finish (MIR_alloc_t a, void *d) { return reduce_encode_finish (a, d); }
void *sut_decode_start (MIR_alloc_t a, sut_reader_t r, void *aux) { return reduce_decode_start (a, r, aux); }
int sut_decode_get (void *d) { return reduce_decode_get (d); }
int sut_decode_finish (MIR_alloc_t a, void *d) { return reduce_decode_finish (a, d); }
