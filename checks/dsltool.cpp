// dsltool -- cross-validation of the template program family against an independent reference (gcc):
// for the program of a plan (as printed by `lcsim --emit`) write every module as C text (prog::CEmitter), a driver
// that calls the functions the plan calls, and what the executable model (prog::Model) predicts for each call (result
// and external-call log).  bin/check selftest-emitters compiles the C with gcc, runs it and compares.
// usage: dsltool <plan.json> <outdir>
#include <cstdio>
#include <cstdlib>
#include <string>
#include "../prog/dsl.hpp"
using sim::Json;

static std::string read_all(const char *p) { FILE *f = fopen(p, "rb"); if (!f) { perror(p); exit(2); } std::string r; char b[65536]; size_t n; while ((n = fread(b, 1, sizeof b, f)) > 0) r.append(b, n); fclose(f); return r; }
static void write_all(const std::string &p, const std::string &s) { FILE *f = fopen(p.c_str(), "wb"); if (!f) { perror(p.c_str()); exit(2); } fwrite(s.data(), 1, s.size(), f); fclose(f); }

int main(int argc, char **argv) {
  if (argc < 3) { fprintf(stderr, "usage: dsltool plan.json outdir\n"); return 2; }
  std::string txt = read_all(argv[1]); size_t nl = txt.find_last_of('{', txt.size()); (void) nl;
  Json plan = Json::parse(txt.substr(txt.find('{')));
  if (!plan.has("prog")) { fprintf(stderr, "plan has no program\n"); return 3; }
  if (prog::prog_has_two_results(plan.at("prog"))) { fprintf(stderr, "two-result functions: no C form\n"); return 3; }
  const Json &prog = plan.at("prog"); std::string out = argv[2];
  auto sigs = prog::signatures(prog);
  std::map<std::string, const Json *> defs; std::map<const Json *, std::string> modof;
  for (auto &m : prog.at("mods").a) for (auto &f : m.at("funcs").a) { if (defs.count(f.gets("name"))) { fprintf(stderr, "duplicate definitions (history program): not a plain program\n"); return 3; } defs[f.gets("name")] = &f; modof[&f] = m.gets("name"); }
  std::map<std::string, const Json *> datas; for (auto &m : prog.at("mods").a) if (const Json *dj = m.find("data")) for (auto &d : dj->a) datas[d.gets("name")] = &d;
  for (auto &m : prog.at("mods").a) if (m.find("data")) { fprintf(stderr, "data items: not covered by the C emitter\n"); return 3; }
  size_t mi = 0;
  for (auto &m : prog.at("mods").a) { prog::CEmitter e; write_all(out + "/m" + std::to_string(mi++) + ".c", e.module(m, sigs)); }
  // driver + expectations
  std::string drv = std::string("#include <stdio.h>\n") + prog::C_BLK_DECLS + "static long long nlog; static unsigned long long hlog;\n"
    "static void lg(long long t, long long v) { nlog++; hlog = (hlog ^ (unsigned long long) t) * 1099511628211ULL; hlog = (hlog ^ (unsigned long long) v) * 1099511628211ULL; }\n"
    "long long ext(long long tag, long long v) { lg(tag, v); return (long long)((unsigned long long) v * 3 + (unsigned long long) tag); }\n"
    "long long extm(long long t, float x, long double y, int n, double z, unsigned char b, long double w, long long s7, float x2, short h, long long p, unsigned q, long long last) { lg(200, t);\n"
    "  return (long long)((unsigned long long) t * 3 + (unsigned long long)(long long) x * 5 + (unsigned long long)(long long) y * 7 + (unsigned long long)(long long) n * 11 + (unsigned long long)(long long) z * 13 + (unsigned long long) b * 17 + (unsigned long long)(long long) w * 19 + (unsigned long long) s7 * 23\n"
    "    + (unsigned long long)(long long) x2 * 29 + (unsigned long long)(long long) h * 31 + (unsigned long long) p * 37 + (unsigned long long) q * 41 + (unsigned long long) last * 43); }\n";
  prog::Model model;
  model.module_of = [&](const Json *d) { return modof[d]; };
  model.resolve = [&](const std::string &, const std::string &callee) -> const Json * { std::string n = callee; size_t h = n.find('#'); if (h != std::string::npos) n = n.substr(0, h); auto it = defs.find(n); return it == defs.end() ? nullptr : it->second; };
  std::string calls, expect; std::set<std::string> declared; int ncalls = 0;
  for (auto &op : plan.at("ops").a) {
    if (op.k != Json::Arr || op.size() < 3 || (op[0].s != "call" && op[0].s != "interp")) continue;
    auto it = defs.find(op[1].s); if (it == defs.end()) continue;
    const Json &f = *it->second; auto &fi = sigs.at(op[1].s);
    bool uses_extn = false; prog::walk(f.at("body"), [&](const Json &) {});
    std::vector<int64_t> args; for (size_t i = 0; i < (size_t) fi.na; i++) args.push_back(i < op[2].size() ? (int64_t) op[2][i].num() : (int64_t) (i * 1001 + 1));
    model.log.clear(); model.entered.clear(); model.steps = 0; model.overrun = false; model.depth = 0;
    int64_t want = model.call(f, args);
    if (model.overrun) continue;
    (void) uses_extn;
    uint64_t h = 0; for (auto &e : model.log) { h = (h ^ (uint64_t) e.tag) * 1099511628211ULL; h = (h ^ (uint64_t) e.v) * 1099511628211ULL; }
    if (!declared.count(fi.name)) {
      declared.insert(fi.name); std::string d = std::string("extern ") + prog::c_ty(fi.rt) + " " + fi.name + "("; int k = 0; for (char c : fi.ps) { if (k++) d += ", "; d += prog::c_ty(c); } if (fi.ps.empty()) d += "void"; drv += d + ");\n";
    }
    std::string c = "  nlog = 0; hlog = 0; r = (long long) " + fi.name + "("; int ai = 0, di = 0, k = 0;
    for (char ch : fi.ps) { if (k++) c += ", ";
      if (const prog::BlkInfo *bi = prog::blk_info(ch)) { int64_t v = args[(size_t) ai++]; c += std::string("(") + prog::c_ty(ch) + "){"; for (int j = 0; bi->fields[j]; j++) { uint64_t raw = prog::blk_field(bi->fields[j], v, j); c += std::string(j ? ", " : "") + (bi->fields[j] == 'q' ? "(long long) " + std::to_string((unsigned long long) raw) + "ULL" : std::to_string((unsigned long long) raw) + ".0"); } c += "}"; }
      else if (prog::int_kind(ch)) { long long v = (long long) args[(size_t) ai++]; c += v == INT64_MIN ? std::string("(-9223372036854775807LL-1)") : std::to_string(v) + "LL"; } else { c += prog::S("%d.0%s", 2 + di, ch == 'f' ? "f" : ch == 'l' ? "L" : ""); di++; } }
    c += "); printf(\"%lld %lld %llu\\n\", r, nlog, hlog);\n"; calls += c;
    expect += std::to_string((long long) want) + " " + std::to_string(model.log.size()) + " " + std::to_string((unsigned long long) h) + "\n"; ncalls++;
  }
  bool any_extn = false; for (auto &m : prog.at("mods").a) for (auto &f : m.at("funcs").a) prog::walk(f.at("body"), [&](const Json &st) { if (st[0].s == "extn") any_extn = true; });
  if (any_extn) { fprintf(stderr, "extn: not covered by the C emitter\n"); return 3; }
  drv += "int main(void) { long long r;\n" + calls + "  return 0; }\n";
  write_all(out + "/main.c", drv); write_all(out + "/expected.txt", expect);
  printf("%zu modules, %d calls\n", prog.at("mods").size(), ncalls);
  return ncalls ? 0 : 3;
}
