// adtsim — C19: container headers refine an abstract map / bit-set / sequence, for every operation history.
// System under simulation: mir-htab.h, mir-bitmap.h, mir-varr.h, mir-dlist.h of /repo (real code, via adt_sut.c).
// Simulator-owned: the operation history and the allocator the headers talk to (simalloc: moving realloc, junk fill,
// poison on free, red zones, ledger).  Oracle: step-by-step refinement against std::map / std::set / std::vector.
#include <map>
#include <set>
#include <vector>
#include <list>
#include "../sim/runner.hpp"
#include "../sim/simalloc.hpp"
#include "adt_sut.h"

using namespace sim;

static const size_t ARENA = 64u << 20;
static void *const ARENA_ADDR = (void *) 0x200000000000ULL;

struct AdtSim : Harness {
  SimAlloc A;
  const char *name() override { return "adtsim"; }
  int hang_seconds() override { return 6; }
  void worker_init() override {
    if (!A.base && !A.map(ARENA_ADDR, ARENA)) { fprintf(stderr, "adtsim: cannot map arena\n"); _exit(3); }
  }

  // ------------------------------------------------------------------------------------------------ generation
  static const int HT_ALPHA = 13;  // ins/rep/del/find x keys{0,1,2} + clear
  static int64_t enum_count(int L) { int64_t s = 0, p = 1; for (int l = 1; l <= L; l++) { p *= HT_ALPHA; s += p; } return 3 * s; }
  static Json ht_alpha_op(int a, int pos) {
    Json o = Json::array();
    if (a == 12) { o.push("clear"); return o; }
    static const char *nm[] = {"ins", "rep", "del", "find"};
    int kind = a / 3, key = a % 3;
    o.push(nm[kind]); o.push(key);
    if (kind < 2) o.push(100 + pos);
    return o;
  }
  Json gen_enum(int64_t ix, int L) {
    Json plan = Json::object(), kn = Json::object();
    static const int modes[3] = {0, 1, 2};
    int mode = modes[ix % 3]; ix /= 3;
    int len = 1; int64_t p = HT_ALPHA;
    while (ix >= p && len < L) { ix -= p; p *= HT_ALPHA; len++; }
    kn.set("obj", "htab"); kn.set("hash_mode", mode); kn.set("min_size", 1); kn.set("with_free", 1);
    kn.set("realloc", 0); kn.set("junk", 0xA5); kn.set("gap", 16); kn.set("enumerated", 1);
    Json ops = Json::array();
    for (int i = 0; i < len; i++) { ops.push(ht_alpha_op((int) (ix % HT_ALPHA), i)); ix /= HT_ALPHA; }
    plan.set("knobs", kn); plan.set("ops", ops);
    return plan;
  }
  static int pick_len(Rng &r) {
    unsigned c = (unsigned) r.below(100);
    if (c < 45) return (int) r.range(1, 8);
    if (c < 80) return (int) r.range(9, 40);
    if (c < 97) return (int) r.range(41, 300);
    return (int) r.range(301, 2000);
  }
  static size_t pick_bit(Rng &r, size_t univ) {
    static const size_t edge[] = {0, 1, 62, 63, 64, 65, 126, 127, 128, 129, 191, 192, 193, 200};
    if (r.chance(1, 2)) { size_t b = edge[r.below(sizeof edge / sizeof *edge)]; return b <= univ ? b : univ; }
    return (size_t) r.below(univ + 1);
  }
  Json generate(Rng &r, const Json &cfg) override {
    int L = (int) cfg.geti("enum_len", 0);
    int64_t ix = cfg.geti("_index", -1);
    if (L > 0 && ix >= 0 && ix < enum_count(L)) return gen_enum(ix, L);
    Json plan = Json::object(), kn = Json::object(), ops = Json::array();
    unsigned which = (unsigned) r.below(100);
    const char *only = nullptr; std::string onlys = cfg.gets("only"); if (!onlys.empty()) only = onlys.c_str();
    const char *obj = only ? only : which < 35 ? "htab" : which < 75 ? "bitmap" : which < 90 ? "varr" : "dlist";
    kn.set("obj", obj);
    kn.set("realloc", (int) (r.chance(3, 5) ? 0 : r.range(1, 2)));
    kn.set("junk", (int) (r.coin() ? 0xA5 : r.coin() ? 0xFF : 0x00));
    kn.set("gap", (int) (r.coin() ? 16 : r.coin() ? 64 : 16));
    int n = pick_len(r);
    std::string o = obj;
    if (o == "htab") {
      kn.set("hash_mode", (int) r.below(7));
      kn.set("min_size", (int) (r.chance(2, 3) ? r.range(0, 2) : r.range(3, 9)));
      kn.set("with_free", (int) r.chance(3, 4));
      int keys = r.chance(1, 2) ? 4 : r.chance(1, 2) ? 16 : 64;
      kn.set("keys", keys);
      // swarm: per-run op weights
      int w_ins = (int) r.range(1, 6), w_rep = (int) r.range(0, 3), w_del = (int) r.range(0, 6), w_find = (int) r.range(0, 3), w_clear = r.chance(1, 3) ? 1 : 0, w_misc = 1;
      int tot = w_ins + w_rep + w_del + w_find + w_clear + w_misc;
      for (int i = 0; i < n; i++) {
        int c = (int) r.below(tot); Json op = Json::array();
        int key = (int) r.below(keys);
        if ((c -= w_ins) < 0) { op.push("ins"); op.push(key); op.push(100 + i); }
        else if ((c -= w_rep) < 0) { op.push("rep"); op.push(key); op.push(100 + i); }
        else if ((c -= w_del) < 0) { op.push("del"); op.push(key); }
        else if ((c -= w_find) < 0) { op.push("find"); op.push(key); }
        else if ((c -= w_clear) < 0) { op.push("clear"); }
        else { op.push(r.coin() ? "foreach" : "num"); }
        ops.push(op);
      }
    } else if (o == "bitmap") {
      Json init = Json::array();
      for (int i = 0; i < 4; i++) init.push((int) (r.chance(1, 4) ? -1 : r.chance(1, 2) ? r.range(0, 1) : r.range(2, 200)));
      kn.set("init", init);
      size_t univ = r.chance(1, 3) ? 70 : r.chance(1, 2) ? 200 : 135;
      kn.set("univ", (long long) univ);
      static const char *mut1[] = {"set", "clr", "setr", "clrr"};
      static const char *qry1[] = {"bit", "empty", "count", "min", "max", "iter"};
      static const char *op2[] = {"and", "andc", "ior"};
      static const char *op3[] = {"iorand", "iorandc"};
      int w_mut = (int) r.range(2, 8), w_q = (int) r.range(1, 3), w_2 = (int) r.range(1, 6), w_3 = (int) r.range(0, 4), w_cp = (int) r.range(0, 2), w_cmp = 1, w_misc = r.chance(1, 2);
      int tot = w_mut + w_q + w_2 + w_3 + w_cp + w_cmp + w_misc;
      for (int i = 0; i < n; i++) {
        int c = (int) r.below(tot); Json op = Json::array();
        int d = (int) r.below(4);
        if ((c -= w_mut) < 0) {
          const char *m = mut1[r.below(4)]; op.push(m); op.push(d); size_t nb = pick_bit(r, univ); op.push((long long) nb);
          if (m[3] == 'r') { size_t len = r.chance(1, 3) ? (size_t) r.below(4) : r.chance(1, 2) ? 64 - nb % 64 + (r.chance(1, 2) ? 0 : (size_t) r.below(3)) : (size_t) r.below(univ + 1 - nb + 1); if (r.chance(1, 6)) len = 64 * (size_t) r.range(1, 2); op.push((long long) len); }
        } else if ((c -= w_q) < 0) { const char *q = qry1[r.below(6)]; op.push(q); op.push(d); if (q[0] == 'b') op.push((long long) pick_bit(r, univ + 64)); }
        else if ((c -= w_2) < 0) { op.push(op2[r.below(3)]); op.push(d); op.push((int) (r.chance(1, 3) ? d : r.below(4))); op.push((int) (r.chance(1, 3) ? d : r.below(4))); }
        else if ((c -= w_3) < 0) { op.push(op3[r.below(2)]); op.push(d); for (int k = 0; k < 3; k++) op.push((int) (r.chance(1, 3) ? d : r.below(4))); }
        else if ((c -= w_cp) < 0) { op.push("copy"); op.push(d); op.push((int) r.below(4)); }
        else if ((c -= w_cmp) < 0) { op.push(r.coin() ? "eq" : "isect"); op.push(d); op.push((int) r.below(4)); }
        else { if (r.coin()) { op.push("clear"); op.push(d); } else { op.push("expand"); op.push(d); op.push((long long) pick_bit(r, univ)); } }
        ops.push(op);
      }
    } else if (o == "varr") {
      kn.set("init", (int) (r.chance(1, 4) ? 0 : r.range(1, 5)));
      for (int i = 0; i < n; i++) {
        Json op = Json::array(); unsigned c = (unsigned) r.below(100);
        if (c < 35) { op.push("push"); op.push(1000 + i); }
        else if (c < 45) { op.push("pop"); }
        else if (c < 55) { op.push("get"); op.push((int) r.below(64)); }
        else if (c < 63) { op.push("set"); op.push((int) r.below(64)); op.push(2000 + i); }
        else if (c < 68) { op.push("last"); }
        else if (c < 74) { op.push("trunc"); op.push((int) r.below(64)); }
        else if (c < 80) { op.push("expand"); op.push((int) r.below(200)); }
        else if (c < 86) { op.push("tailor"); op.push((int) r.below(40)); }
        else if (c < 93) { op.push("pusharr"); op.push((int) r.below(12)); op.push(3000 + 16 * i); }
        else { op.push(r.coin() ? "foreach" : "len"); }
        ops.push(op);
      }
    } else {
      for (int i = 0; i < n; i++) {
        Json op = Json::array(); unsigned c = (unsigned) r.below(100);
        if (c < 15) op.push("pre");
        else if (c < 30) op.push("app");
        else if (c < 42) { op.push("insb"); op.push((int) r.below(32)); }
        else if (c < 54) { op.push("insa"); op.push((int) r.below(32)); }
        else if (c < 74) { op.push("rem"); op.push((int) r.below(32)); }
        else if (c < 82) { op.push("el"); op.push((int) r.range(-12, 12)); }
        else if (c < 90) { op.push(r.coin() ? "next" : "prev"); op.push((int) r.below(32)); }
        else op.push(r.coin() ? "len" : r.coin() ? "head" : "tail");
        ops.push(op);
      }
    }
    plan.set("knobs", kn); plan.set("ops", ops);
    return plan;
  }

  // ------------------------------------------------------------------------------------------------ execution
  struct HtState {
    std::vector<std::pair<int, int>> freed;  // calls of free_func during current op
    uint64_t calls = 0; bool budget_hit = false;
  } hs;
  static void on_free(int k, int v, void *u) { ((AdtSim *) u)->hs.freed.emplace_back(k, v); }
  static void on_call(void *u) {
    AdtSim *s = (AdtSim *) u;
    if (++s->hs.calls > 200000) {
      if (g_slot) snprintf((char *) g_slot->note, NOTE_LEN, "CLASS=adt_step_budget SIG=htab_do hash/eq functions called >200000 times in one operation (probe loop does not terminate)");
      _exit(78);
    }
  }
  static std::vector<std::pair<int, int>> sorted(std::vector<std::pair<int, int>> v) { std::sort(v.begin(), v.end()); return v; }
  static std::string show(const std::vector<std::pair<int, int>> &v) { std::string s = "{"; for (auto &p : v) s += fmt("(%d,%d)", p.first, p.second); return s + "}"; }
  static std::string showset(const std::set<size_t> &v) { std::string s = "{"; int n = 0; for (auto b : v) { if (n++) s += ","; if (n > 24) { s += "..."; break; } s += fmt("%zu", b); } return s + "}"; }

  Outcome execute(const Json &plan, RunCtx &ctx) override {
    Outcome out;
    const Json &kn = plan.at("knobs"); const Json &ops = plan.at("ops");
    A.reset();
    A.realloc_mode = (int) kn.geti("realloc", 0); A.junk = (uint8_t) kn.geti("junk", 0xA5); A.gap = (size_t) kn.geti("gap", 16);
    if (A.gap < 16) A.gap = 16;
    std::string obj = kn.gets("obj", "htab");
    if (obj == "htab") run_htab(kn, ops, out, ctx);
    else if (obj == "bitmap") run_bitmap(kn, ops, out, ctx);
    else if (obj == "varr") run_varr(kn, ops, out, ctx);
    else run_dlist(kn, ops, out, ctx);
    A.audit(true);
    if (A.bad) out.fail(A.cls, A.sig, A.detail);
    ctx.count("alloc_events", A.events);
    ctx.count("realloc_moved_live_block", A.n_realloc_live_moved);
    out.ticks = A.events + ops.size();
    out.trace_hash = A.trace.h ^ mix2(thash.h, 1);
    if (out.violation) ctx.count("violations");
    return out;
  }
  Fnv thash;
  void obs(long v) { thash.u64((uint64_t) v); }

  // ---- HTAB
  void run_htab(const Json &kn, const Json &ops, Outcome &out, RunCtx &ctx) {
    thash = Fnv();
    sut_harg_t arg; arg.hash_mode = (int) kn.geti("hash_mode", 0); arg.on_free = on_free; arg.on_call = on_call; arg.u = this;
    bool with_free = kn.geti("with_free", 1) != 0;
    void *h = sut_htab_create(A.alloc(), (unsigned) kn.geti("min_size", 1), with_free, &arg);
    std::map<int, int> M;
    int dels_since_rebuild = 0; bool probe = false; int nops = 0;
    for (auto &op : ops.a) {
      if (out.violation || A.bad) break;
      const std::string &o = op[0].s;
      hs.freed.clear(); hs.calls = 0;
      uint64_t re0 = A.n_realloc;
      std::vector<std::pair<int, int>> exp_free;
      nops++;
      if (o == "ins" || o == "rep" || o == "del" || o == "find") {
        int key = (int) op[1].num(), val = op.size() > 2 ? (int) op[2].num() : 0;
        int action = o == "find" ? 0 : o == "ins" ? 1 : o == "rep" ? 2 : 3;
        int rk = 0, rv = 0;
        int found = sut_htab_do(h, key, val, action, &rk, &rv);
        auto it = M.find(key); bool mfound = it != M.end();
        obs(found);
        if (found != (int) mfound) { out.fail("htab_found", o, fmt("%s key=%d returned %d, model says %d", o.c_str(), key, found, (int) mfound)); break; }
        if (action == 0 || action == 1) {
          if (mfound && (rk != key || rv != it->second)) { out.fail("htab_element", o, fmt("%s key=%d returned element (%d,%d), model has (%d,%d)", o.c_str(), key, rk, rv, key, it->second)); break; }
          if (!mfound && action == 1) { M[key] = val; if (rk != key || rv != val) { out.fail("htab_element", o, fmt("insert of new key=%d returned (%d,%d), expected (%d,%d)", key, rk, rv, key, val)); break; } }
        } else if (action == 2) {
          if (mfound) exp_free.emplace_back(key, it->second);
          M[key] = val;
          if (rk != key || rv != val) { out.fail("htab_element", o, fmt("replace key=%d returned (%d,%d), expected (%d,%d)", key, rk, rv, key, val)); break; }
        } else {
          if (mfound) { exp_free.emplace_back(key, it->second); M.erase(it); dels_since_rebuild++; ctx.count("htab_delete_hit"); }
        }
        if (A.n_realloc != re0) { ctx.count("htab_rebuild"); probe = true; if (dels_since_rebuild) ctx.count("htab_rebuild_with_tombstones"); dels_since_rebuild = 0; }
        else if ((action == 1 || action == 2) && !mfound && dels_since_rebuild) { ctx.count("htab_insert_with_tombstones_present"); probe = true; }
        if (hs.calls > 40) ctx.count("htab_long_probe");
      } else if (o == "clear") {
        for (auto &p : M) exp_free.emplace_back(p.first, p.second);
        sut_htab_clear(h); M.clear(); dels_since_rebuild = 0;
      } else if (o == "foreach") {
        std::vector<std::pair<int, int>> seen, want(M.begin(), M.end());
        sut_htab_foreach(h, [](int k, int v, void *u) { ((std::vector<std::pair<int, int>> *) u)->emplace_back(k, v); }, &seen);
        if (sorted(seen) != want) { out.fail("htab_contents", "foreach", "foreach visited " + show(sorted(seen)) + ", model has " + show(want)); break; }
      } else if (o == "num") {
        /* checked below for every op */
      } else continue;
      if (with_free) { if (sorted(hs.freed) != sorted(exp_free)) { out.fail("htab_free_func", o, "free function called for " + show(sorted(hs.freed)) + ", expected " + show(sorted(exp_free))); break; } }
      unsigned n = sut_htab_els_num(h); obs(n);
      if (n != M.size()) { out.fail("htab_els_num", o, fmt("els_num=%u after %s, model has %zu", n, o.c_str(), M.size())); break; }
      // full contents after every op
      std::vector<std::pair<int, int>> seen, want(M.begin(), M.end());
      sut_htab_foreach(h, [](int k, int v, void *u) { ((std::vector<std::pair<int, int>> *) u)->emplace_back(k, v); }, &seen);
      if (sorted(seen) != want) { out.fail("htab_contents", o, "after " + o + " table holds " + show(sorted(seen)) + ", model has " + show(want)); break; }
      // every model key must be findable with its value (lookup path, not just storage)
      for (auto &p : M) { int rk, rv; hs.calls = 0; if (!sut_htab_do(h, p.first, 0, 0, &rk, &rv) || rv != p.second) { out.fail("htab_lookup", o, fmt("after %s key %d is stored but FIND %s", o.c_str(), p.first, "fails or returns a stale element")); break; } }
    }
    if (!out.violation && !A.bad) {
      hs.freed.clear(); std::vector<std::pair<int, int>> exp_free(M.begin(), M.end());
      sut_htab_destroy(h);
      if (with_free && sorted(hs.freed) != exp_free) out.fail("htab_free_func", "destroy", "destroy freed " + show(sorted(hs.freed)) + ", expected " + show(exp_free));
    } else { A.audit(false); /* leave objects; arena is reset */ A.live_blocks = 0; }
    out.nontrivial = nops >= 3 && probe;
  }

  // ---- bitmap
  static int bmop_code(const std::string &o) {
    static const std::map<std::string, int> m = {{"clear", BM_CLEAR}, {"expand", BM_EXPAND}, {"bit", BM_BIT_P}, {"set", BM_SET_BIT_P}, {"clr", BM_CLEAR_BIT_P}, {"setr", BM_SET_RANGE_P}, {"clrr", BM_CLEAR_RANGE_P}, {"copy", BM_COPY}, {"eq", BM_EQUAL_P}, {"isect", BM_INTERSECT_P}, {"empty", BM_EMPTY_P}, {"count", BM_BIT_COUNT}, {"min", BM_BIT_MIN}, {"max", BM_BIT_MAX}, {"and", BM_AND}, {"andc", BM_AND_COMPL}, {"ior", BM_IOR}, {"iorand", BM_IOR_AND}, {"iorandc", BM_IOR_AND_COMPL}, {"iter", BM_ITER}};
    auto it = m.find(o); return it == m.end() ? -1 : it->second;
  }
  void run_bitmap(const Json &kn, const Json &ops, Outcome &out, RunCtx &ctx) {
    thash = Fnv();
    void *B[4]; std::set<size_t> M[4];
    const Json &init = kn.at("init");
    for (int i = 0; i < 4; i++) B[i] = sut_bm_create(A.alloc(), i < (int) init.size() ? (long) init[i].num() : -1);
    bool probe = false; int nops = 0;
    std::vector<size_t> buf(1024);
    for (auto &op : ops.a) {
      if (out.violation || A.bad) break;
      const std::string &o = op[0].s; int code = bmop_code(o); if (code < 0 || op.size() < 2) continue;
      int d = (int) (op[1].num() & 3);
      nops++;
      auto arg = [&](size_t i) -> int64_t { return i < op.size() ? op[i].num() : 0; };
      long r = 0, want = 0; bool check_ret = true;
      std::set<size_t> old = M[d];
      uint64_t mv0 = A.n_realloc_live_moved;
      switch (code) {
      case BM_CLEAR: sut_bm_op(code, B[d], 0, 0, 0, 0, 0); M[d].clear(); check_ret = false; break;
      case BM_EXPAND: sut_bm_op(code, B[d], 0, 0, 0, (size_t) arg(2) % 1024, 0); check_ret = false; break;
      case BM_BIT_P: { size_t nb = (size_t) arg(2) % 1024; r = sut_bm_op(code, B[d], 0, 0, 0, nb, 0); want = M[d].count(nb); break; }
      case BM_SET_BIT_P: { size_t nb = (size_t) arg(2) % 1024; r = sut_bm_op(code, B[d], 0, 0, 0, nb, 0); want = M[d].insert(nb).second; break; }
      case BM_CLEAR_BIT_P: { size_t nb = (size_t) arg(2) % 1024; r = sut_bm_op(code, B[d], 0, 0, 0, nb, 0); want = M[d].erase(nb) != 0; break; }
      case BM_SET_RANGE_P: case BM_CLEAR_RANGE_P: {
        size_t nb = (size_t) arg(2) % 1024, len = (size_t) arg(3) % 1024;
        r = sut_bm_op(code, B[d], 0, 0, 0, nb, len); want = 0;
        for (size_t b = nb; b < nb + len; b++) { if (code == BM_SET_RANGE_P) want |= M[d].insert(b).second; else want |= M[d].erase(b) != 0; }
        if (len >= 64 && nb % 64 == 0) ctx.count("bm_range_whole_word");
        if (nb / 64 != (nb + len) / 64) ctx.count("bm_range_crosses_word");
        break;
      }
      case BM_COPY: { int s = (int) (arg(2) & 3); if (s == d) { nops--; continue; } sut_bm_op(code, B[d], B[s], 0, 0, 0, 0); M[d] = M[s]; check_ret = false; break; }
      case BM_EQUAL_P: { int s = (int) (arg(2) & 3); r = sut_bm_op(code, B[d], B[s], 0, 0, 0, 0); want = M[d] == M[s]; break; }
      case BM_INTERSECT_P: { int s = (int) (arg(2) & 3); r = sut_bm_op(code, B[d], B[s], 0, 0, 0, 0); want = 0; for (auto b : M[d]) if (M[s].count(b)) { want = 1; break; } break; }
      case BM_EMPTY_P: r = sut_bm_op(code, B[d], 0, 0, 0, 0, 0); want = M[d].empty(); break;
      case BM_BIT_COUNT: r = sut_bm_op(code, B[d], 0, 0, 0, 0, 0); want = (long) M[d].size(); break;
      case BM_BIT_MIN: r = sut_bm_op(code, B[d], 0, 0, 0, 0, 0); want = M[d].empty() ? 0 : (long) *M[d].begin(); break;
      case BM_BIT_MAX: r = sut_bm_op(code, B[d], 0, 0, 0, 0, 0); want = M[d].empty() ? 0 : (long) *M[d].rbegin(); break;
      case BM_AND: case BM_AND_COMPL: case BM_IOR: {
        int s1 = (int) (arg(2) & 3), s2 = (int) (arg(3) & 3);
        std::set<size_t> res;
        if (code == BM_AND) { for (auto b : M[s1]) if (M[s2].count(b)) res.insert(b); }
        else if (code == BM_AND_COMPL) { for (auto b : M[s1]) if (!M[s2].count(b)) res.insert(b); }
        else { res = M[s1]; res.insert(M[s2].begin(), M[s2].end()); }
        r = sut_bm_op(code, B[d], B[s1], B[s2], 0, 0, 0);
        want = res != M[d]; M[d] = res;
        if (d == s1 || d == s2) ctx.count("bm_op_aliased_dst");
        if (!old.empty() && (M[s1].empty() || *M[s1].rbegin() / 64 < *old.rbegin() / 64) && (M[s2].empty() || *M[s2].rbegin() / 64 < *old.rbegin() / 64)) ctx.count("bm_dst_longer_than_sources");
        break;
      }
      case BM_IOR_AND: case BM_IOR_AND_COMPL: {
        int s1 = (int) (arg(2) & 3), s2 = (int) (arg(3) & 3), s3 = (int) (arg(4) & 3);
        std::set<size_t> res = M[s1];
        for (auto b : M[s2]) if ((M[s3].count(b) != 0) == (code == BM_IOR_AND)) res.insert(b);
        r = sut_bm_op(code, B[d], B[s1], B[s2], B[s3], 0, 0);
        want = res != M[d]; M[d] = res;
        if (d == s1 || d == s2 || d == s3) ctx.count("bm_op_aliased_dst");
        break;
      }
      case BM_ITER: check_ret = false; break;
      }
      if (A.n_realloc_live_moved != mv0) probe = true;
      obs(r);
      if (check_ret && (r != 0) != (want != 0) && (code == BM_BIT_P || code == BM_SET_BIT_P || code == BM_CLEAR_BIT_P || code == BM_SET_RANGE_P || code == BM_CLEAR_RANGE_P || code == BM_EQUAL_P || code == BM_INTERSECT_P || code == BM_EMPTY_P)) {
        out.fail(code == BM_SET_RANGE_P || code == BM_CLEAR_RANGE_P || code == BM_SET_BIT_P || code == BM_CLEAR_BIT_P ? "bitmap_changed_flag" : "bitmap_query", o, fmt("%s returned %ld, model says %ld; dst before=%s", o.c_str(), r, want, showset(old).c_str())); break;
      }
      if (check_ret && (code == BM_BIT_COUNT || code == BM_BIT_MIN || code == BM_BIT_MAX) && r != want) { out.fail("bitmap_query", o, fmt("%s returned %ld, model says %ld for %s", o.c_str(), r, want, showset(M[d]).c_str())); break; }
      if (code >= BM_AND && code <= BM_IOR_AND_COMPL) {
        if (want) ctx.count("bm_op_changed"); else ctx.count("bm_op_unchanged");
        if ((r != 0) != (want != 0)) { out.fail("bitmap_changed_flag", o, fmt("%s reported changed=%ld but destination %s: before=%s after(model)=%s", o.c_str(), r, want ? "changed" : "did not change", showset(old).c_str(), showset(M[d]).c_str())); break; }
      }
      // full state of all four bitmaps after every op: iterator must yield exactly the model, ascending, once each
      for (int i = 0; i < 4 && !out.violation; i++) {
        size_t n = sut_bm_iter(B[i], buf.data(), buf.size());
        bool ok = n == M[i].size(); size_t k = 0;
        if (ok) for (auto b : M[i]) { if (buf[k++] != b) { ok = false; break; } }
        if (!ok) {
          std::string got = "["; for (size_t j = 0; j < n && j < 24 && j < buf.size(); j++) got += fmt("%s%zu", j ? "," : "", buf[j]); got += n > 24 ? ",...]" : "]";
          bool asc = true; for (size_t j = 1; j < n && j < buf.size(); j++) if (buf[j] <= buf[j - 1]) asc = false;
          out.fail(asc ? "bitmap_contents" : "bitmap_iterator", o, fmt("after %s bitmap %d iterates as %s, model has %s", o.c_str(), i, got.c_str(), showset(M[i]).c_str()));
        }
        if (!M[i].empty() && ((*M[i].begin()) % 64) != 0 && M[i].size() > 1) ctx.count("bm_iter_first_bit_mid_word");
      }
      if (!out.violation) {
        // cross-check random access against the model around word boundaries of the destination
        static const size_t pts[] = {0, 63, 64, 127, 128, 191, 192, 255, 256};
        for (size_t p : pts) { long bp = sut_bm_op(BM_BIT_P, B[d], 0, 0, 0, p, 0); if ((bp != 0) != (M[d].count(p) != 0)) { out.fail("bitmap_contents", o, fmt("after %s bit_p(%zu)=%ld disagrees with model", o.c_str(), p, bp)); break; } }
      }
    }
    if (!out.violation && !A.bad) for (int i = 0; i < 4; i++) sut_bm_destroy(B[i]);
    else A.live_blocks = 0;
    out.nontrivial = nops >= 3 && probe;
  }

  // ---- VARR
  void run_varr(const Json &kn, const Json &ops, Outcome &out, RunCtx &ctx) {
    thash = Fnv();
    void *v = sut_varr_create(A.alloc(), (size_t) kn.geti("init", 0));
    std::vector<int> M; bool probe = false; int nops = 0;
    for (auto &op : ops.a) {
      if (out.violation || A.bad) break;
      const std::string &o = op[0].s; nops++;
      auto arg = [&](size_t i) -> int64_t { return i < op.size() ? op[i].num() : 0; };
      uint64_t mv0 = A.n_realloc_live_moved;
      if (o == "push") { sut_varr_op(VA_PUSH, v, 0, (int) arg(1), nullptr); M.push_back((int) arg(1)); }
      else if (o == "pop") { if (M.empty()) continue; long r = sut_varr_op(VA_POP, v, 0, 0, nullptr); if (r != M.back()) { out.fail("varr_value", o, fmt("pop returned %ld, model %d", r, M.back())); break; } M.pop_back(); }
      else if (o == "get") { if (M.empty()) continue; size_t i = (size_t) arg(1) % M.size(); long r = sut_varr_op(VA_GET, v, i, 0, nullptr); if (r != M[i]) { out.fail("varr_value", o, fmt("get(%zu) returned %ld, model %d", i, r, M[i])); break; } }
      else if (o == "set") { if (M.empty()) continue; size_t i = (size_t) arg(1) % M.size(); sut_varr_op(VA_SET, v, i, (int) arg(2), nullptr); M[i] = (int) arg(2); }
      else if (o == "last") { if (M.empty()) continue; long r = sut_varr_op(VA_LAST, v, 0, 0, nullptr); if (r != M.back()) { out.fail("varr_value", o, fmt("last returned %ld, model %d", r, M.back())); break; } }
      else if (o == "trunc") { size_t n = (size_t) arg(1) % (M.size() + 1); sut_varr_op(VA_TRUNC, v, n, 0, nullptr); M.resize(n); }
      else if (o == "expand") { sut_varr_op(VA_EXPAND, v, (size_t) arg(1) % 4096, 0, nullptr); }
      else if (o == "tailor") {
        size_t n = (size_t) arg(1) % 4096, oldn = M.size(); if (n == 0) n = 1;
        sut_varr_op(VA_TAILOR, v, n, 0, nullptr); M.resize(n);
        for (size_t i = oldn; i < n; i++) { sut_varr_op(VA_SET, v, i, (int) (7000 + i), nullptr); M[i] = (int) (7000 + i); }  // new slots are undefined: define them
      }
      else if (o == "pusharr") { size_t n = (size_t) arg(1) % 64; std::vector<int> a(n + 1); for (size_t i = 0; i < n; i++) a[i] = (int) (arg(2) + (int64_t) i); sut_varr_op(VA_PUSH_ARR, v, n, 0, a.data()); M.insert(M.end(), a.begin(), a.begin() + n); }
      else if (o == "foreach" || o == "len") {}
      else continue;
      if (A.n_realloc_live_moved != mv0) probe = true;
      long len = sut_varr_op(VA_LENGTH, v, 0, 0, nullptr), cap = sut_varr_op(VA_CAPACITY, v, 0, 0, nullptr);
      obs(len);
      if ((size_t) len != M.size()) { out.fail("varr_length", o, fmt("length %ld after %s, model %zu", len, o.c_str(), M.size())); break; }
      if (cap < len) { out.fail("varr_length", "capacity", fmt("capacity %ld < length %ld", cap, len)); break; }
      long s = 0; for (int x : M) s = s * 31 + x;
      if (sut_varr_op(VA_FOREACH_SUM, v, 0, 0, nullptr) != s) {
        size_t bad = 0; for (; bad < M.size(); bad++) if (sut_varr_op(VA_ADDR_GET, v, bad, 0, nullptr) != M[bad]) break;
        out.fail("varr_contents", o, fmt("after %s element %zu is %ld, model %d", o.c_str(), bad, bad < M.size() ? sut_varr_op(VA_ADDR_GET, v, bad, 0, nullptr) : -1L, bad < M.size() ? M[bad] : -1)); break;
      }
    }
    if (!out.violation && !A.bad) sut_varr_destroy(v); else A.live_blocks = 0;
    out.nontrivial = nops >= 3 && probe;
    (void) ctx;
  }

  // ---- DLIST
  void run_dlist(const Json &, const Json &ops, Outcome &out, RunCtx &ctx) {
    thash = Fnv();
    void *l = sut_dl_create(A.alloc());
    std::vector<int> M; std::map<int, void *> node; int next_id = 1; bool probe = false; int nops = 0; long num;
    auto mk = [&]() { int id = next_id++; node[id] = sut_dl_node(A.alloc(), id); return id; };
    for (auto &op : ops.a) {
      if (out.violation || A.bad) break;
      const std::string &o = op[0].s; nops++;
      auto arg = [&](size_t i) -> int64_t { return i < op.size() ? op[i].num() : 0; };
      if (o == "pre") { int id = mk(); sut_dl_op(DL_PREPEND, l, node[id], 0, 0, &num); M.insert(M.begin(), id); }
      else if (o == "app") { int id = mk(); sut_dl_op(DL_APPEND, l, node[id], 0, 0, &num); M.push_back(id); }
      else if (o == "insb" || o == "insa") {
        if (M.empty()) continue; size_t p = (size_t) arg(1) % M.size(); int id = mk();
        sut_dl_op(o == "insb" ? DL_INSERT_BEFORE : DL_INSERT_AFTER, l, node[M[p]], node[id], 0, &num);
        M.insert(M.begin() + p + (o == "insa"), id);
        if (p != 0 && p + 1 != M.size()) probe = true;
      } else if (o == "rem") {
        if (M.empty()) continue; size_t p = (size_t) arg(1) % M.size();
        sut_dl_op(DL_REMOVE, l, node[M[p]], 0, 0, &num); M.erase(M.begin() + p); probe = true;
      } else if (o == "el") {
        int n = (int) arg(1); int want = -1;
        if (n >= 0) { if ((size_t) n < M.size()) want = M[n]; } else { size_t k = (size_t) (-n - 1); if (k < M.size()) want = M[M.size() - 1 - k]; }
        int got = sut_dl_id(sut_dl_op(DL_EL, l, 0, 0, n, &num));
        if (got != want) { out.fail("dlist_el", o, fmt("el(%d) is node %d, model %d", n, got, want)); break; }
      } else if (o == "next" || o == "prev") {
        if (M.empty()) continue; size_t p = (size_t) arg(1) % M.size();
        int got = sut_dl_id(sut_dl_op(o == "next" ? DL_NEXT : DL_PREV, l, node[M[p]], 0, 0, &num));
        int want = o == "next" ? (p + 1 < M.size() ? M[p + 1] : -1) : (p > 0 ? M[p - 1] : -1);
        if (got != want) { out.fail("dlist_link", o, fmt("%s of position %zu is node %d, model %d", o.c_str(), p, got, want)); break; }
      } else if (o == "len" || o == "head" || o == "tail") {}
      else continue;
      sut_dl_op(DL_LENGTH, l, 0, 0, 0, &num); obs(num);
      if ((size_t) num != M.size()) { out.fail("dlist_length", o, fmt("length %ld after %s, model %zu", num, o.c_str(), M.size())); break; }
      // forward and backward walks
      void *e = sut_dl_op(DL_HEAD, l, 0, 0, 0, &num); size_t k = 0;
      for (; e && k < M.size(); e = sut_dl_op(DL_NEXT, l, e, 0, 0, &num), k++) if (sut_dl_id(e) != M[k]) break;
      if (e || k != M.size()) { out.fail("dlist_order", o, fmt("forward walk after %s diverges from model at position %zu", o.c_str(), k)); break; }
      e = sut_dl_op(DL_TAIL, l, 0, 0, 0, &num); k = M.size();
      for (; e && k > 0; e = sut_dl_op(DL_PREV, l, e, 0, 0, &num), k--) if (sut_dl_id(e) != M[k - 1]) break;
      if (e || k != 0) { out.fail("dlist_order", o, fmt("backward walk after %s diverges from model at position %zu", o.c_str(), k)); break; }
    }
    A.live_blocks = 0;  // nodes/list are plain blocks owned by the harness
    out.nontrivial = nops >= 3 && probe;
    (void) ctx;
  }

  // shrink candidates: smaller arguments
  std::vector<Json> simplify(const Json &plan) override {
    std::vector<Json> c;
    const Json &ops = plan.at("ops");
    for (size_t i = 0; i < ops.size(); i++)
      for (size_t j = 1; j < ops[i].size(); j++)
        if (ops[i][j].k == Json::Int && ops[i][j].i > 0) {
          for (int64_t nv : {(int64_t) 0, ops[i][j].i / 2, ops[i][j].i - 1}) {
            if (nv == ops[i][j].i) continue;
            Json p = plan; (*p.find("ops"))[i][j] = Json((long long) nv); c.push_back(p);
          }
        }
    const Json &kn = plan.at("knobs");
    for (const char *k : {"hash_mode", "min_size", "realloc"}) if (kn.geti(k, 0) > 0) { Json p = plan; (*p.find("knobs")).set(k, 0); c.push_back(p); }
    return c;
  }
};

int main(int argc, char **argv) { AdtSim h; return runner_main(argc, argv, h); }
