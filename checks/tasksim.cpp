// tasksim — C18: independent contexts used from different threads do not interfere.
// N cooperative tasks (ucontext coroutines on one OS thread, one MIR context each, own arena / code region / stack /
// clock at fixed addresses) run lcsim histories.  The simulator decides every interleaving: the next task is chosen at
// every yield point (each simulated allocator / code-allocator call, each external called from MIR code).  While a task
// is switched out its arena and code region are PROT_NONE; the writable image of libmir.so (.data/.bss after RELRO) is
// write-protected, every write traps (SIGSEGV + single step), is attributed to the running task and to the symbol written.
// Oracles: O1 each task's trace (allocator call sequence with sizes and addresses, published code bytes, results,
// external-call log) equals its solo run in a pristine process; O2 no library static is written by one task and
// written/read by another; O3 no access to another task's memory; O4 the C17 ledger per task; O5 every task finishes.
#define LCSIM_NO_MAIN
#include "lcsim.cpp"
#include <ucontext.h>
#include <sys/wait.h>

struct Task {
  LcSim sim; ucontext_t uc; uint8_t *stack = nullptr; size_t stack_len = 1 << 20; Json plan; Outcome out;
  bool started = false, done = false, abandoned = false; int saved_errno = 0; int64_t stall_until = -1; uint64_t events = 0; int64_t jump_s = 0;
};

struct StaticAccess { int task; bool write; uint64_t rip; };

struct TaskSim : Harness {
  const char *name() override { return "tasksim"; }
  int hang_seconds() override { return 600; }
  LcSim gen_helper;  // only used to generate task plans (never executes)
  void worker_init() override {
    if (g_sym.syms.empty() && !g_sym.load("libmir.so")) { fprintf(stderr, "tasksim: cannot read libmir.so symbols\n"); _exit(3); }
  }

  // ------------------------------------------------------------------------------------------ generation
  Json generate(Rng &r, const Json &cfg) override {
    Json plan = Json::object(), kn = Json::object(), tasks = Json::array();
    int n = (int) r.range(2, 4);
    static const char *pol[] = {"uniform", "long_slices", "round_robin", "starve_one", "sequential_reverse"};
    kn.set("policy", pol[r.below(5)]); kn.set("sched_seed", (long long) r.below(1u << 30)); kn.set("slice", (int) (r.chance(1, 2) ? r.range(1, 20) : r.range(20, 400)));
    Json c2 = cfg; c2.set("mode", "C17");
    for (int i = 0; i < n; i++) {
      Json t = gen_helper.generate(r, c2);
      // thread-like workloads: keep bodies moderate so that N solo runs + one interleaved run stay cheap
      Json fl = Json::array();
      if (r.chance(1, 6)) { Json f = Json::array(); f.push("stall"); f.push((long long) r.below(2000)); f.push((long long) r.range(50, 3000)); fl.push(f); }
      if (r.chance(1, 10)) { Json f = Json::array(); f.push("abandon"); f.push((long long) r.below(4000)); fl.push(f); }
      if (r.chance(1, 8)) { Json f = Json::array(); f.push("clock_jump"); f.push((long long) r.range(-400, 400)); fl.push(f); }
      t.set("faults", fl);
      tasks.push(t);
    }
    plan.set("knobs", kn); plan.set("ops", tasks);  // "ops" = the task list (what ddmin drops)
    return plan;
  }

  // ------------------------------------------------------------------------------------------ scheduler
  std::vector<Task *> T; int cur = -1; ucontext_t main_uc; Rng srng; std::string policy; int slice = 10, slice_left = 0; uint64_t switches = 0, yields = 0;
  RunCtx *C = nullptr; bool interleaved = false;
  static TaskSim *me;
  static Layout layout_for(int i) { uint64_t R = 0x300000000000ULL + (uint64_t) i * 0x40000000000ULL; return Layout{R, R + 0x10000000000ULL, R + 0x20012340000ULL, R + 0x30012340000ULL, (1ull << 40) - 0x12340000ULL}; }

  static void task_entry(int idx) {
    TaskSim *s = me; Task *t = s->T[(size_t) idx];
    RunCtx rc;  // per-task counters are merged by the parent of the run
    t->out = t->sim.execute(t->plan, rc);
    for (auto &p : rc.local) s->task_counts[p.first] += p.second;
    t->done = true;
    swapcontext(&t->uc, &s->main_uc);
  }
  std::map<std::string, uint64_t> task_counts;

  void switch_in(int i) {
    Task *t = T[(size_t) i]; cur = i; g_self = &t->sim; wrap::hooks.clock_ticks = &t->sim.clock_ticks; wrap::hooks.clock_jump_s = t->jump_s; errno = t->saved_errno;
    if (interleaved) { t->sim.A.set_accessible(true); t->sim.A2.set_accessible(true); t->sim.K.set_accessible(true); t->sim.K2.set_accessible(true); }
  }
  void switch_out(int i) {
    Task *t = T[(size_t) i]; t->saved_errno = errno;
    if (interleaved) { t->sim.A.set_accessible(false); t->sim.A2.set_accessible(false); t->sim.K.set_accessible(false); t->sim.K2.set_accessible(false); }
    cur = -1;
  }
  // called on the running task's stack at every seam event
  static void yield_point(int kind) {
    TaskSim *s = me; if (s->cur < 0 || !s->interleaved) return;
    Task *t = s->T[(size_t) s->cur]; t->events++; s->yields++;
    bool must = false;
    for (auto &f : t->plan.at("faults").a) {
      if (f[0].s == "abandon" && (int64_t) t->events == f[1].num() + 1) { t->abandoned = true; must = true; s->task_counts["fault_task_abandoned"]++; }
      if (f[0].s == "stall" && (int64_t) t->events == f[1].num() + 1) { t->stall_until = (int64_t) s->yields + f[2].num(); must = true; s->task_counts["fault_task_stalled"]++; }
    }
    if (!must) {
      if (s->switches > 25000) return;  // deterministic bound on the cost of one run: from here on tasks run in long slices
      if (s->policy == "sequential_reverse") return;  // tasks run to completion one after another (reverse creation order)
      if (--s->slice_left > 0) return;
    }
    s->slice_left = s->policy == "long_slices" ? s->slice * 8 : s->policy == "round_robin" ? s->slice : 1 + (int) s->srng.below((uint64_t) s->slice * 2);
    int me_i = s->cur; s->switch_out(me_i);
    swapcontext(&t->uc, &s->main_uc);   // back to the scheduler loop
    (void) kind;
  }
  static void alloc_hook(SimAlloc *, int kind, size_t, size_t) { yield_point(kind); }
  static void code_hook(SimCode *, int kind, void *, size_t) { yield_point(10 + kind); }

  int pick_next() {
    std::vector<int> ready; for (int i = 0; i < (int) T.size(); i++) if (!T[(size_t) i]->done && !T[(size_t) i]->abandoned) ready.push_back(i);
    if (ready.empty()) return -1;
    std::vector<int> unstalled; for (int i : ready) if (T[(size_t) i]->stall_until < (int64_t) yields) unstalled.push_back(i);
    if (unstalled.empty()) { for (int i : ready) T[(size_t) i]->stall_until = -1; unstalled = ready; }  // everybody stalled: time passes
    if (policy == "round_robin") { static int rr = 0; rr++; return unstalled[(size_t) rr % unstalled.size()]; }
    if (policy == "sequential_reverse") return unstalled.back();
    if (policy == "starve_one" && unstalled.size() > 1) { std::vector<int> u2(unstalled.begin() + 1, unstalled.end()); if (!srng.chance(1, 50)) return u2[srng.below(u2.size())]; }
    return unstalled[srng.below(unstalled.size())];
  }

  // ------------------------------------------------------------------------------------------ static-write trap
  static std::map<uint64_t, std::vector<StaticAccess>> granules; static uint64_t trap_page; static uint64_t n_traps; static bool trap_armed;
  static void arm(bool on) {
    uint64_t lo = (g_sym.relro_end + 4095) & ~4095ull, hi = (g_sym.rw_hi + 4095) & ~4095ull;
    if (lo < hi) mprotect((void *) lo, hi - lo, on ? PROT_READ : PROT_READ | PROT_WRITE);
    trap_armed = on;
  }
  static void segv(int sig, siginfo_t *si, void *ucv) {
    ucontext_t *u = (ucontext_t *) ucv; uint64_t a = (uint64_t) si->si_addr; bool wr = (u->uc_mcontext.gregs[REG_ERR] & 2) != 0;
    uint64_t lo = (g_sym.relro_end + 4095) & ~4095ull, hi = (g_sym.rw_hi + 4095) & ~4095ull;
    if (sig == SIGSEGV && trap_armed && a >= lo && a < hi && wr) {
      // a write to the library's static image: record, let the instruction through (single step), re-protect in the SIGTRAP handler
      granules[a & ~7ull].push_back(StaticAccess{me->cur, true, (uint64_t) u->uc_mcontext.gregs[REG_RIP]}); n_traps++;
      trap_page = a & ~4095ull; mprotect((void *) trap_page, 4096, PROT_READ | PROT_WRITE);
      u->uc_mcontext.gregs[REG_EFL] |= 0x100;
      return;
    }
    // anything else: another task's memory, or a crash
    void *rip = (void *) u->uc_mcontext.gregs[REG_RIP]; std::string fn = g_sym.in_text(rip) ? g_sym.name(rip) : "jit_or_harness";
    int owner = -1; for (int i = 0; i < (int) me->T.size(); i++) { Layout L = layout_for(i); if (a >= L.a && a < L.a + 0x40000000000ULL) owner = i; }
    if (g_slot) {
      if (owner >= 0 && owner != me->cur && me->interleaved)
        snprintf((char *) g_slot->note, NOTE_LEN, "CLASS=foreign_memory_access SIG=%s task %d %s memory of task %d's context at %p (in %s, during %s)", fn.c_str(), me->cur, wr ? "writes" : "reads or executes", owner, si->si_addr, fn.c_str(), g_phase);
      else {
        SimCode *oc = sig == SIGSEGV ? SimCode::owner_of(si->si_addr) : nullptr;
        if (oc && wr) snprintf((char *) g_slot->note, NOTE_LEN, "CLASS=code_write_outside_window SIG=%s store to code memory %p outside a write window in %s during %s", fn.c_str(), si->si_addr, fn.c_str(), g_phase);
        else snprintf((char *) g_slot->note, NOTE_LEN, "CLASS=crash SIG=%s_in_%s %s at %p in %s (task %d, %s) during %s", signame(sig), fn.c_str(), signame(sig), si->si_addr, fn.c_str(), me->cur, me->interleaved ? "interleaved" : "solo", g_phase);
      }
    }
    _exit(77);
  }
  static void trap(int, siginfo_t *, void *ucv) {
    ucontext_t *u = (ucontext_t *) ucv; u->uc_mcontext.gregs[REG_EFL] &= ~0x100ll;
    if (trap_page) { mprotect((void *) trap_page, 4096, PROT_READ); trap_page = 0; }
  }
  void install_handlers() {
    static uint8_t altstack[1 << 16]; stack_t ss; ss.ss_sp = altstack; ss.ss_size = sizeof altstack; ss.ss_flags = 0; sigaltstack(&ss, nullptr);
    struct sigaction sa; memset(&sa, 0, sizeof sa); sa.sa_sigaction = segv; sa.sa_flags = SA_SIGINFO | SA_ONSTACK | SA_NODEFER;
    for (int s : {SIGSEGV, SIGBUS, SIGILL, SIGFPE, SIGABRT}) sigaction(s, &sa, nullptr);
    struct sigaction st; memset(&st, 0, sizeof st); st.sa_sigaction = trap; st.sa_flags = SA_SIGINFO | SA_ONSTACK; sigaction(SIGTRAP, &st, nullptr);
  }

  // ------------------------------------------------------------------------------------------ one execution (in a forked child)
  struct TaskResult { uint64_t hash; bool violation; std::string cls, sig, detail; bool done, abandoned; };
  // which: -1 = interleaved run of all tasks; i >= 0 = task i alone
  Json run_tasks(const Json &plan, int which, RunCtx &rc) {
    C = &rc; me = this; const Json &tasks = plan.at("ops"); const Json &kn = plan.at("knobs");
    interleaved = which < 0; policy = kn.gets("policy", "uniform"); slice = (int) std::max<int64_t>(1, kn.geti("slice", 10)); srng.reseed((uint64_t) kn.geti("sched_seed", 1)); slice_left = slice;
    granules.clear(); n_traps = 0; switches = yields = 0; task_counts.clear();
    install_handlers();
    for (auto t : T) delete t; T.clear();
    for (size_t i = 0; i < tasks.size(); i++) {
      Task *t = new Task(); t->plan = tasks[i]; if (!t->plan.has("faults")) t->plan.set("faults", Json::array());
      t->sim.L = layout_for((int) i); t->sim.own_handlers = false; t->sim.ext_variant = (int) i & 3; t->sim.worker_init();
      t->sim.A.on_event = alloc_hook; t->sim.A2.on_event = alloc_hook; t->sim.K.on_event = code_hook; t->sim.K2.on_event = code_hook; t->sim.K.hash_code = t->sim.K2.hash_code = true;
      for (auto &f : t->plan.at("faults").a) if (f[0].s == "clock_jump") { t->jump_s = f[1].num() * 86400; task_counts["fault_clock_jump"]++; }  // per-task simulated clock: the same jump solo and interleaved
      t->stack = (uint8_t *) mmap((void *) (0x2f0000000000ULL + i * 0x10000000ULL), t->stack_len, PROT_READ | PROT_WRITE, MAP_PRIVATE | MAP_ANONYMOUS | MAP_FIXED_NOREPLACE, -1, 0);
      if (t->stack == MAP_FAILED) { fprintf(stderr, "tasksim: cannot map stack\n"); _exit(3); }
      T.push_back(t);
      if (interleaved) { t->sim.A.set_accessible(false); t->sim.A2.set_accessible(false); }
    }
    g_yield_hook = yield_point;
    if (interleaved && T.size() > 1) arm(true);
    if (!interleaved) {
      Task *t = T[(size_t) which]; cur = which; g_self = &t->sim; wrap::hooks.clock_ticks = &t->sim.clock_ticks; wrap::hooks.clock_jump_s = t->jump_s;
      arm(true);  // solo runs trap static writes too (same cost model, and the access log names what a single context writes)
      getcontext(&t->uc); t->uc.uc_stack.ss_sp = t->stack; t->uc.uc_stack.ss_size = t->stack_len; t->uc.uc_link = &main_uc; makecontext(&t->uc, (void (*)()) task_entry, 1, which);
      swapcontext(&main_uc, &t->uc);
    } else {
      for (;;) {
        int n = pick_next(); if (n < 0) break;
        Task *t = T[(size_t) n]; switches++;
        if (!t->started) { t->started = true; getcontext(&t->uc); t->uc.uc_stack.ss_sp = t->stack; t->uc.uc_stack.ss_size = t->stack_len; t->uc.uc_link = &main_uc; makecontext(&t->uc, (void (*)()) task_entry, 1, n); }
        switch_in(n);
        swapcontext(&main_uc, &t->uc);
        if (cur >= 0) switch_out(cur);   // task finished (returned through task_entry)
        if (yields > 40000000) break;
      }
    }
    arm(false);
    Json res = Json::object(), tr = Json::array();
    for (size_t i = 0; i < T.size(); i++) {
      Task *t = T[i]; Json j = Json::object();
      j.set("hash", fmt("%016llx", (unsigned long long) t->out.trace_hash)); j.set("violation", t->out.violation); j.set("cls", t->out.cls); j.set("sig", t->out.sig); j.set("detail", t->out.detail);
      j.set("done", t->done); j.set("abandoned", t->abandoned); j.set("events", (unsigned long long) t->events); tr.push(j);
    }
    res.set("tasks", tr); res.set("switches", (unsigned long long) switches); res.set("yields", (unsigned long long) yields); res.set("traps", (unsigned long long) n_traps);
    // static accesses, by symbol
    Json st = Json::array();
    for (auto &g : granules) {
      std::set<int> tasks_w; for (auto &a : g.second) tasks_w.insert(a.task);
      Json e = Json::object(); e.set("sym", g_sym.name((void *) g.first)); e.set("off", (unsigned long long) (g.first - g_sym.base)); Json tw = Json::array(); for (int x : tasks_w) tw.push(x); e.set("writers", tw);
      e.set("by", g_sym.name((void *) g.second[0].rip)); e.set("n", (unsigned long long) g.second.size()); st.push(e);
    }
    res.set("statics", st);
    Json cj = Json::object(); for (auto &p : task_counts) cj.set(p.first, (unsigned long long) p.second); res.set("counts", cj);
    return res;
  }
  // fork, run, return the result JSON (or a death description)
  Json run_in_child(const Json &plan, int which, RunCtx &rc, ChildEnd *death) {
    int pfd[2]; if (pipe(pfd)) _exit(3);
    fflush(stdout); fflush(stderr);
    pid_t pid = fork();
    if (pid == 0) {
      close(pfd[0]);
      Json r = run_tasks(plan, which, rc); std::string s = r.str();
      size_t off = 0; while (off < s.size()) { ssize_t n = write(pfd[1], s.data() + off, s.size() - off); if (n <= 0) break; off += (size_t) n; }
      _exit(0);
    }
    close(pfd[1]); std::string got; char buf[65536]; ssize_t n; int64_t t0 = now_ms(); bool hung = false;
    fcntl(pfd[0], F_SETFL, O_NONBLOCK);
    for (;;) {
      n = read(pfd[0], buf, sizeof buf);
      if (n > 0) { got.append(buf, (size_t) n); continue; }
      if (n == 0) break;
      if (now_ms() - t0 > 150000) { kill(pid, SIGKILL); hung = true; break; }
      usleep(200);
    }
    close(pfd[0]); int st = 0; waitpid(pid, &st, 0);
    if (hung) { death->status = "hang"; death->cls = "hang"; death->sig = which < 0 ? "interleaved" : "solo"; death->detail = "no result within 150 s"; return Json(); }
    if (WIFEXITED(st) && WEXITSTATUS(st) == 0 && !got.empty()) { try { return Json::parse(got); } catch (...) {} }
    *death = classify_death(st, g_slot ? (const char *) g_slot->note : "", false);
    return Json();
  }

  Outcome execute(const Json &plan, RunCtx &rc) override {
    Outcome out; const Json &tasks = plan.at("ops"); size_t n = tasks.size();
    if (n == 0) return out;
    Fnv th; ChildEnd death;
    // solo baselines, each in a pristine process
    std::vector<Json> solo;
    for (size_t i = 0; i < n; i++) {
      if (g_slot) g_slot->note[0] = 0;
      Json r = run_in_child(plan, (int) i, rc, &death);
      if (r.is_null()) { out.fail("side_solo_task_fails_" + death.cls, death.sig, fmt("task %zu alone (not an interference matter): ", i) + death.detail); rc.count("solo_task_failed"); out.trace_hash = th.h; return out; }
      solo.push_back(r); th.str(r.at("tasks")[i].gets("hash").c_str());
      if (r.at("tasks")[i].at("violation").b) {  // the task's own history fails alone: not an interference matter
        out.fail("side_solo_task_fails_" + r.at("tasks")[i].gets("cls"), r.at("tasks")[i].gets("sig"), fmt("task %zu alone (not an interference matter): ", i) + r.at("tasks")[i].gets("detail")); out.trace_hash = th.h; return out;
      }
    }
    if (g_slot) g_slot->note[0] = 0;
    Json inter = run_in_child(plan, -1, rc, &death);
    if (inter.is_null()) { out.fail(death.cls, death.sig, "interleaved run: " + death.detail); out.trace_hash = th.h; return out; }
    rc.count("context_switches", (uint64_t) inter.geti("switches")); rc.count("yield_points", (uint64_t) inter.geti("yields")); rc.count("static_write_traps", (uint64_t) inter.geti("traps"));
    for (auto &p : inter.at("counts").o) rc.count(p.first.c_str(), (uint64_t) p.second.num());
    out.ticks = (uint64_t) inter.geti("yields");
    // O1 / O4 / O5
    for (size_t i = 0; i < n && !out.violation; i++) {
      const Json &ti = inter.at("tasks")[i], &ts = solo[i].at("tasks")[i];
      th.str(ti.gets("hash").c_str());
      if (ti.at("abandoned").b) { rc.count("tasks_abandoned_mid_run"); continue; }
      if (ti.at("violation").b) { out.fail("interleaved_" + ti.gets("cls"), ti.gets("sig"), fmt("task %zu (fine alone) under interleaving: ", i) + ti.gets("detail")); break; }
      if (!ti.at("done").b) { out.fail("task_no_progress", "not_finished", fmt("task %zu did not finish under interleaving", i)); break; }
      if (ti.gets("hash") != ts.gets("hash")) { out.fail("solo_equivalence", "trace_hash", fmt("task %zu: trace under interleaving (%s, %lld seam events) differs from its solo run (%s, %lld events): allocator call sequence, published code bytes, results or external-call log changed", i, ti.gets("hash").c_str(), (long long) ti.geti("events"), ts.gets("hash").c_str(), (long long) ts.geti("events"))); break; }
      rc.count("tasks_equal_to_solo");
    }
    // O2: library statics written by more than one task (unsynchronised: the library has no locks)
    if (!out.violation) for (auto &g : inter.at("statics").a) if (g.at("writers").size() > 1) {
      out.fail("static_write_write", g.gets("sym"), fmt("static %s (libmir.so+0x%llx) is written by %zu different tasks' contexts (first from %s): process-wide mutable state shared between contexts", g.gets("sym").c_str(), (unsigned long long) g.geti("off"), g.at("writers").size(), g.gets("by").c_str()));
      break;
    }
    // statics written by a single context while others exist are reported as probes (a reader in another context would race)
    for (auto &g : inter.at("statics").a) rc.count(("static_written_" + g.gets("sym")).c_str());
    out.nontrivial = inter.geti("switches") >= 3;
    out.trace_hash = th.h;
    if (out.violation) rc.count("violations");
    return out;
  }

  std::vector<Json> simplify(const Json &plan) override {
    std::vector<Json> c; const Json &kn = plan.at("knobs");
    if (kn.gets("policy") != "sequential_reverse") { Json p = plan; p["knobs"].set("policy", "sequential_reverse"); c.push_back(p); }
    if (kn.gets("policy") != "round_robin" && kn.gets("policy") != "sequential_reverse") { Json p = plan; p["knobs"].set("policy", "round_robin"); c.push_back(p); }
    for (size_t i = 0; i < plan.at("ops").size(); i++) {
      const Json &t = plan.at("ops")[i];
      if (t.at("faults").size()) { Json p = plan; p["ops"][i].set("faults", Json::array()); c.push_back(p); }
      // shrink each task's own history
      const Json &ops = t.at("ops");
      for (size_t k = ops.size(); k-- > 0;) { if (ops.size() > 60 && k % 4) continue; Json p = plan; p["ops"][i]["ops"].a.erase(p["ops"][i]["ops"].a.begin() + (long) k); c.push_back(p); }
    }
    return c;
  }
};
TaskSim *TaskSim::me; std::map<uint64_t, std::vector<StaticAccess>> TaskSim::granules; uint64_t TaskSim::trap_page; uint64_t TaskSim::n_traps; bool TaskSim::trap_armed;

int main(int argc, char **argv) { TaskSim h; return runner_main(argc, argv, h); }
