// streamsim — C12: the compression layer is lossless and never trusts a damaged stream.
// Level A: reduce_encode / reduce_decode of /repo between simulator-owned reader/writer call-backs over an in-memory
//          store ("disk"); faults on the stored stream (truncate, extend, alter, zero, duplicate, swap, splice) and on
//          the call-backs (early EOF, short read); struct reduce_data abuts a PROT_NONE guard page.
// Level B: a real context MIR_write_with_func -> store -> faults -> fresh context MIR_read_with_func with a longjmp
//          error function (crash point of the history).
#include <setjmp.h>
#include <ucontext.h>
#include "../sim/runner.hpp"
#include "../sim/simalloc.hpp"
#include "../sim/libwrap.hpp"
#include "stream_sut.h"
extern "C" {
#include "mir.h"
}

using namespace sim;
typedef std::vector<uint8_t> Bytes;

// ---------------------------------------------------------------------------------------------- guard allocator
static uint8_t *const GUARD_BASE = (uint8_t *) 0x210000000000ULL;
static const size_t PG = 4096;
struct GuardAlloc {
  uint8_t *lo_guard = nullptr, *payload = nullptr, *hi_guard = nullptr; size_t pay_len = 0, size = 0, buf_off = 0;
  bool at_end = true; uint8_t junk = 0xA5; bool live = false, first = true; size_t hint = 0;
  uint64_t allocs = 0, frees = 0; bool bad_free = false;
  struct MIR_alloc vt;
  void init() {
    size = sut_data_size(); buf_off = sut_buf_off();
    pay_len = (size + PG - 1) / PG * PG;
    void *p = mmap(GUARD_BASE, pay_len + 2 * PG, PROT_NONE, MAP_PRIVATE | MAP_ANONYMOUS | MAP_NORESERVE | MAP_FIXED_NOREPLACE, -1, 0);
    if (p != GUARD_BASE) { fprintf(stderr, "streamsim: cannot map guard region\n"); _exit(3); }
    lo_guard = GUARD_BASE; payload = GUARD_BASE + PG; hi_guard = payload + pay_len;
    mprotect(payload, pay_len, PROT_READ | PROT_WRITE);
    vt.malloc = s_malloc; vt.calloc = s_calloc; vt.realloc = s_realloc; vt.free = s_free; vt.user_data = this;
  }
  void new_run(bool end, uint8_t j) { at_end = end; junk = j; first = true; live = false; bad_free = false; hint = 0; }
  void *get(size_t n) {
    allocs++;
    if (n != size || live) return malloc(n);  // anything else (never happens in level A)
    live = true;
    uint8_t *p = at_end ? hi_guard - size : payload;
    if (first) { memset(payload, junk, pay_len); first = false; }
    else { memset(p, junk, 8192); size_t t = std::min(sut_buf_len(), hint + 8192); memset(p + buf_off - 64, junk, 64 + t); }
    return p;
  }
  void put(void *p) { frees++; if (!p) return; if (p == (at_end ? hi_guard - size : payload) && live) { live = false; return; } if ((uint8_t *) p >= lo_guard && (uint8_t *) p < hi_guard + PG) { bad_free = true; return; } free(p); }
  // nothing else is mapped within 16 GB of the region (fixed addresses), so a fault anywhere near it is an access relative to the block
  bool in_guard(void *a, bool *after) { uint8_t *p = (uint8_t *) a; if (p >= lo_guard - (1ull << 34) && p < payload) { *after = false; return true; } if (p >= hi_guard && p < hi_guard + (1ull << 34)) { *after = true; return true; } return false; }
  static void *s_malloc(size_t n, void *u) { return ((GuardAlloc *) u)->get(n); }
  static void *s_calloc(size_t a, size_t b, void *u) { void *p = ((GuardAlloc *) u)->get(a * b); if (p) memset(p, 0, a * b); return p; }
  static void *s_realloc(void *p, size_t, size_t n, void *) { return realloc(p, n); }
  static void s_free(void *p, void *u) { ((GuardAlloc *) u)->put(p); }
};
static GuardAlloc G;
static const char *g_phase = "";
static bool g_damaged_read = false;

static void segv_handler(int sig, siginfo_t *si, void *uc) {
  bool after; ucontext_t *u = (ucontext_t *) uc;
  bool wr = (u->uc_mcontext.gregs[REG_ERR] & 2) != 0;
  if (g_slot) {
    if (sig == SIGSEGV && G.in_guard(si->si_addr, &after))
      snprintf((char *) g_slot->note, NOTE_LEN, "CLASS=stream_oob SIG=%s_%s %s %ld bytes %s the decoder's struct reduce_data during %s", wr ? "write" : "read", after ? "after" : "before",
               wr ? "write" : "read", after ? (long) ((uint8_t *) si->si_addr - G.hi_guard) : (long) (G.payload - (uint8_t *) si->si_addr), after ? "past the end of" : "before the start of", g_phase);
    else if (g_damaged_read)
      // MIR_read's *parser* fell over plain data of an early 256KB buffer of a damaged multi-buffer stream (delivered before
      // the trailer hash can be checked).  Robustness of the binary parser is not C12 (compression layer): side finding.
      snprintf((char *) g_slot->note, NOTE_LEN, "CLASS=side_mirbin_parser_crash SIG=%s fault address %p during %s of a damaged stream", signame(sig), si->si_addr, g_phase);
    else
      snprintf((char *) g_slot->note, NOTE_LEN, "CLASS=crash SIG=%s fault address %p during %s", signame(sig), si->si_addr, g_phase);
  }
  _exit(77);
}

// ---------------------------------------------------------------------------------------------- simulated I/O
struct IO {
  const uint8_t *in = nullptr; size_t in_len = 0, in_pos = 0; Bytes *out = nullptr;
  uint64_t rcalls = 0, wcalls = 0, budget = 0; bool over_budget = false;
  size_t rchunk = 0;                 // encoder-side reader: max bytes per call (0 = as asked)
  int64_t eof_at = -1;               // reader call index at which EOF is reported from then on
  int64_t short_at = -1; size_t short_n = 0;  // reader call index that returns a short count once
  bool fired_eof = false, fired_short = false;
  static size_t rd(void *start, size_t len, void *aux) {
    IO *io = (IO *) aux; int64_t c = (int64_t) io->rcalls++;
    if (io->budget && io->rcalls > io->budget) { io->over_budget = true; return 0; }
    if (io->eof_at >= 0 && c >= io->eof_at) { if (io->in_pos < io->in_len) io->fired_eof = true; return 0; }
    size_t n = std::min(len, io->in_len - io->in_pos);
    if (io->rchunk && n > io->rchunk) n = io->rchunk;
    if (c == io->short_at && n > 0) { size_t k = std::min(n - 1, io->short_n); if (k < n) { n = k; io->fired_short = true; } }
    memcpy(start, io->in + io->in_pos, n); io->in_pos += n; return n;
  }
  static size_t wr(const void *start, size_t len, void *aux) { IO *io = (IO *) aux; io->wcalls++; io->out->insert(io->out->end(), (const uint8_t *) start, (const uint8_t *) start + len); return len; }
};

// ---------------------------------------------------------------------------------------------- data specs
static uint64_t xs(uint64_t &s) { s ^= s << 13; s ^= s >> 7; s ^= s << 17; return s; }
static void build_part(const Json &p, Bytes &out) {
  std::string k = p.gets("kind"); size_t len = (size_t) p.geti("len", 0); uint64_t s = (uint64_t) p.geti("seed", 1) * 2654435761u + 88172645463325252ULL;
  if (len > (3u << 20)) len = 3u << 20;
  if (k == "hex") { const std::string &h = p.gets("hex"); for (size_t i = 0; i + 1 < h.size(); i += 2) out.push_back((uint8_t) strtoul(h.substr(i, 2).c_str(), nullptr, 16)); }
  else if (k == "rep") { out.insert(out.end(), len, (uint8_t) p.geti("byte", 0)); }
  else if (k == "period") { size_t per = (size_t) std::max<int64_t>(1, p.geti("p", 1)); Bytes pat(per); for (auto &b : pat) b = (uint8_t) xs(s); for (size_t i = 0; i < len; i++) out.push_back(pat[i % per]); }
  else if (k == "rand") { unsigned a = (unsigned) std::max<int64_t>(1, p.geti("alpha", 256)); unsigned base = (unsigned) p.geti("base", a <= 26 ? 'a' : 0); for (size_t i = 0; i < len; i++) out.push_back((uint8_t) (base + xs(s) % a)); }
  else if (k == "copy") { size_t from = (size_t) p.geti("back", 1); if (out.empty()) return; if (from > out.size()) from = out.size(); size_t st = out.size() - from; for (size_t i = 0; i < len; i++) out.push_back(out[st + i % from]); }
  else if (k == "count") { for (size_t i = 0; i < len; i++) { uint32_t v = (uint32_t) (i / 4); out.push_back((uint8_t) (v >> (8 * (i % 4)))); } }  // >65536 distinct 4-grams
}
static Bytes build_data(const Json &d) { Bytes b; if (d.k == Json::Arr) for (auto &p : d.a) build_part(p, b); else if (d.k == Json::Obj) build_part(d, b); return b; }
static std::string hexs(const Bytes &b) { std::string s; char t[3]; for (auto c : b) { snprintf(t, 3, "%02x", c); s += t; } return s; }

// ---------------------------------------------------------------------------------------------- level B corpus
static const char *CORPUS[] = {
  "m_sieve: module\n export sieve\nsieve: func i32, i32:N\n local i64:iter, i64:count, i64:i, i64:k, i64:prime, i64:temp, i64:flags\n alloca flags, 819\n mov iter, 0\nloop: bge fin, iter, N\n mov count, 0; mov i, 0\nloop2: bgt fin2, i, 818\n mov u8:(flags, i), 1; add i, i, 1\n jmp loop2\nfin2: mov i, 0\nloop3: bgt fin3, i, 818\n beq cont3, u8:(flags,i), 0\n add temp, i, i; add prime, temp, 3; add k, i, prime\nloop4: bgt fin4, k, 818\n mov u8:(flags, k), 0; add k, k, prime\n jmp loop4\nfin4: add count, count, 1\ncont3: add i, i, 1\n jmp loop3\nfin3: add iter, iter, 1\n jmp loop\nfin: ret count\n endfunc\n endmodule\n",
  "m_a: module\n export f, d1\n import g\np_g: proto i64, i64:x\nd1: i64 11, 22, 33\nf: func i64, i64:a, i64:b\n local i64:r, i64:t\n mul r, a, 3\n add r, r, b\n call p_g, g, t, r\n xor r, r, t\n ret r\n endfunc\n endmodule\nm_b: module\n export g\n forward h\ns1: string \"hello, world\"\ng: func i64, i64:x\n local i64:r\n lsh r, x, 2\n sub r, r, 7\n ret r\n endfunc\nh: func i64\n ret 5\n endfunc\n endmodule\n",
  "m_fp: module\n export fpf\nfd: d 1.5, -2.25\nfpf: func d, d:x, i64:n\n local d:acc, i64:i\n dmov acc, 0.0\n mov i, 0\nl1: bge l2, i, n\n dadd acc, acc, x\n dmul x, x, 0.5\n add i, i, 1\n jmp l1\nl2: ret acc\n endfunc\n endmodule\n",
};

struct StreamSim : Harness {
  SimAlloc A;  // level B contexts
  const char *name() override { return "streamsim"; }
  int hang_seconds() override { return 30; }
  void worker_init() override {
    if (!G.payload) {
      G.init();
      struct sigaction sa; memset(&sa, 0, sizeof sa); sa.sa_sigaction = segv_handler; sa.sa_flags = SA_SIGINFO | SA_NODEFER;
      sigaction(SIGSEGV, &sa, nullptr); sigaction(SIGBUS, &sa, nullptr);
      if (!A.map((void *) 0x220000000000ULL, 1ull << 30)) { fprintf(stderr, "streamsim: cannot map arena\n"); _exit(3); }
    }
  }

  // ------------------------------------------------------------------------------------------ generation
  static Json part(const char *kind) { Json p = Json::object(); p.set("kind", kind); return p; }
  static int64_t edge_len(Rng &r) {
    static const int64_t e[] = {0, 1, 2, 3, 4, 5, 6, 7, 8, 9, 33, 34, 35, 130, 131, 132, 255, 256, 257, 2045, 2046, 2047, 2048, 2049, 4094, 4095, 4096};
    return e[r.below(sizeof e / sizeof *e)];
  }
  static int64_t big_len(Rng &r) {
    static const int64_t B = 1 << 18;
    static const int64_t e[] = {B - 3, B - 1, B, B + 1, B + 5, 2 * B - 1, 2 * B, 2 * B + 1, 3 * B + 7, B + 2047, B + 2048, 100000, 70000, 140000};
    return r.chance(3, 4) ? e[r.below(sizeof e / sizeof *e)] : r.range(60000, 3 * B + 5000);
  }
  Json gen_data(Rng &r, bool big) {
    Json d = Json::array();
    int nparts = (int) r.range(1, big ? 4 : 3);
    int64_t total = big ? big_len(r) : (r.chance(1, 2) ? edge_len(r) : r.range(0, 1200));
    for (int i = 0; i < nparts; i++) {
      int64_t len = i == nparts - 1 ? total : r.range(0, total); total -= len; if (len < 0) len = 0;
      unsigned c = (unsigned) r.below(100); Json p;
      if (c < 12) { p = part("rep"); p.set("byte", (int) r.below(256)); }
      else if (c < 30) { p = part("period"); static const int ps[] = {1, 2, 3, 4, 5, 6, 7, 8, 9, 255, 256, 257, 2046, 2047, 2048}; p.set("p", ps[r.below(15)]); p.set("seed", (long long) r.below(1u << 30)); }
      else if (c < 62) { p = part("rand"); static const int as[] = {2, 2, 4, 4, 16, 256, 256, 256}; p.set("alpha", as[r.below(8)]); p.set("seed", (long long) r.below(1u << 30)); }
      else if (c < 88 && i > 0) { p = part("copy"); static const int bk[] = {1, 3, 4, 5, 34, 36, 127, 128, 129, 131, 2047, 2048, 16383, 16384, 16387, 70000, 200000}; p.set("back", r.chance(3, 4) ? bk[r.below(17)] : (int) r.range(1, 250000)); }
      else if (c < 94) { p = part("count"); }
      else { p = part("rand"); p.set("alpha", 256); p.set("seed", (long long) r.below(1u << 30)); }
      p.set("len", (long long) len); d.push(p);
    }
    return d;
  }
  static void gen_fault(Rng &r, Json &ops, bool big) {
    unsigned c = (unsigned) r.below(100); Json op = Json::array();
    static const int64_t B = 1 << 18;
    auto pos = [&]() -> long long { if (r.chance(1, 3)) return (long long) r.below(16); if (r.chance(1, 3)) return -(long long) r.range(1, 12); if (big && r.chance(1, 2)) return (long long) (r.below(3) * (B / 3) + r.below(2000)); return (long long) r.below(1u << 22); };
    if (c < 22) { op.push("trunc"); op.push(pos()); }
    else if (c < 34) { op.push("extend"); op.push((int) r.range(1, 12)); op.push((int) (r.chance(1, 3) ? 0 : r.below(256))); }
    else if (c < 56) { op.push("xor"); op.push(pos()); static const int m[] = {1, 2, 4, 8, 16, 32, 64, 128, 255}; op.push(m[r.below(9)]); }
    else if (c < 68) { op.push("set"); op.push(pos()); static const int v[] = {0, 0xff, 0x80, 0x1f, 0xe0, 0xc0, 0x07}; op.push(r.chance(1, 2) ? v[r.below(7)] : (int) r.below(256)); }
    else if (c < 75) { op.push("zero"); op.push(pos()); op.push((int) r.range(1, 64)); }
    else if (c < 81) { op.push("dup"); op.push(pos()); op.push((int) r.range(1, 40)); op.push(pos()); }
    else if (c < 87) { op.push("swap"); op.push(pos()); op.push(pos()); op.push((int) r.range(1, 24)); }
    else if (c < 92) { op.push("splice"); op.push(pos()); op.push((long long) r.below(1u << 30)); }
    else if (c < 94) { op.push("rd_eof"); op.push((long long) r.below(r.chance(1, 2) ? 40 : 4000)); }
    else if (c < 96) { op.push("rd_short"); op.push((long long) r.below(r.chance(1, 2) ? 40 : 4000)); op.push((int) r.below(8)); }
    else {
      static const long long rl[] = {4, 5, 36, 37, B - 1, B, B + 1, B + 3, (1ll << 28) - 1, 1ll << 28, 1ll << 31, (1ll << 32) - 16, (1ll << 32) - 3, (1ll << 32) - 1, (1ll << 32) + 2, 1ll << 32, (1ll << 32) + 1};
      int sl = (int) r.range(0, 9);
      if (r.chance(1, 4)) {  // many copies of one crafted element: state that a single element only nudges (symbol index, position) is driven to its limits
        static const long long cn[] = {40, 3000, B + 700, 2 * B + 100};
        static const long long fl[] = {1ll << 32, (1ll << 32) + 1, (1ll << 32) + 2, 4, 5, B - 3};
        op.push("flood"); op.push(r.chance(2, 3) ? 0 : pos()); op.push(fl[r.below(6)]); op.push((int) r.range(0, 2)); op.push(cn[r.below(r.chance(1, 2) ? 4 : 2)]);
      } else {
      op.push("inject"); op.push(r.chance(1, 2) ? 0 : pos()); op.push(rl[r.below(17)]); op.push((int) r.range(0, sl + 1)); op.push(sl); op.push((int) r.coin());
      }
    }
    ops.push(op);
  }
  // enumerated small inputs over alphabets {a,b} (len<=L2) and {a,b,c} (len<=L3), each with complete fault sweeps
  static int64_t enum_n(int A, int L) { int64_t s = 0, p = 1; for (int l = 0; l <= L; l++) { s += p; p *= A; } return s; }
  Json gen_enum(int64_t ix, int A, int L) {
    int len = 0; int64_t p = 1; while (ix >= p && len < L) { ix -= p; p *= A; len++; }
    Bytes b; for (int i = 0; i < len; i++) { b.push_back((uint8_t) ('a' + ix % A)); ix /= A; }
    Json plan = Json::object(), kn = Json::object(), d = part("hex"); d.set("hex", hexs(b));
    kn.set("level", "A"); kn.set("guard", "end"); kn.set("junk", 0xA5); kn.set("enumerated", 1); kn.set("twice", 1);
    Json ops = Json::array();
    for (const char *k : {"trunc", "xor01", "xor80", "set00", "setff", "inc", "ext"}) { Json o = Json::array(); o.push("sweep"); o.push(k); o.push(0); o.push(1 << 20); ops.push(o); }
    plan.set("knobs", kn); plan.set("data", d); plan.set("ops", ops);
    return plan;
  }
  Json generate(Rng &r, const Json &cfg) override {
    int64_t ix = cfg.geti("_index", -1); int L2 = (int) cfg.geti("enum2", 0), L3 = (int) cfg.geti("enum3", 0);
    if (ix >= 0 && L2 > 0) { if (ix < enum_n(2, L2)) return gen_enum(ix, 2, L2); ix -= enum_n(2, L2); }
    if (ix >= 0 && L3 > 0) { if (ix < enum_n(3, L3)) return gen_enum(ix, 3, L3); ix -= enum_n(3, L3); }
    Json plan = Json::object(), kn = Json::object(), ops = Json::array();
    unsigned pb = (unsigned) cfg.geti("pct_b", 12), pbig = (unsigned) cfg.geti("pct_big", 8);
    unsigned w = (unsigned) r.below(100);
    std::string only = cfg.gets("only");
    bool levelB = only.empty() ? w < pb : only == "B";
    kn.set("guard", r.chance(4, 5) ? "end" : "start"); kn.set("junk", (int) (r.coin() ? 0xA5 : r.coin() ? 0x00 : 0xFF));
    if (levelB) {
      kn.set("level", "B");
      kn.set("corpus", (int) r.below(sizeof CORPUS / sizeof *CORPUS));
      // padding string data to reach chosen plain sizes (multi-buffer; exact multiples of the buffer length)
      static const int64_t B = 1 << 18;
      static const int64_t pads[] = {0, 0, 0, 10, 3000, B - 600, B - 300, B, B + 300, 2 * B - 300, 2 * B + 10};
      int64_t pad = r.chance(1, 2) ? 0 : pads[r.below(11)];
      kn.set("pad", (long long) pad); kn.set("pad_alpha", (int) (r.coin() ? 4 : 200)); kn.set("pad_seed", (long long) r.below(1u << 30));
      int64_t exact = r.chance(1, 6) ? (r.coin() ? B : 2 * B) : 0;  // aim the *plain* length at an exact multiple of the buffer length
      kn.set("exact_plain", (long long) exact);
      int nf = r.chance(1, 4) ? 0 : (int) r.range(1, 2);
      for (int i = 0; i < nf; i++) gen_fault(r, ops, pad > 100000);
      plan.set("knobs", kn); plan.set("ops", ops);
      return plan;
    }
    kn.set("level", "A");
    bool big = w >= 100 - pbig;
    kn.set("twice", (int) r.chance(1, 4));
    kn.set("rchunk", (int) (r.chance(1, 2) ? 0 : r.chance(1, 2) ? 1 : r.range(2, 300)));
    plan.set("data", gen_data(r, big));
    unsigned f = (unsigned) r.below(100);
    if (f < 15) { /* fault-free */ }
    else if (!big && f < 45) {  // complete sweep of one fault family over every position
      static const char *ks[] = {"trunc", "xor01", "xor80", "set00", "setff", "inc", "ext"};
      Json o = Json::array(); o.push("sweep"); o.push(ks[r.below(7)]); o.push(0); o.push(1 << 20); ops.push(o);
    } else { int nf = r.chance(3, 4) ? 1 : (int) r.range(2, 4); for (int i = 0; i < nf; i++) gen_fault(r, ops, big); }
    plan.set("knobs", kn); plan.set("ops", ops);
    return plan;
  }

  // ------------------------------------------------------------------------------------------ level A execution
  Fnv th; RunCtx *C = nullptr; uint64_t ticks = 0;
  bool encode(const Bytes &plain, Bytes &out, size_t rchunk) {
    IO io; io.in = plain.data(); io.in_len = plain.size(); io.out = &out; io.rchunk = rchunk; io.budget = 0;
    g_phase = "encode"; G.hint = plain.size();
    int ok = sut_encode(&G.vt, IO::rd, IO::wr, &io); ticks += io.rcalls + io.wcalls;
    return ok != 0;
  }
  struct Dec { bool ok; Bytes out; bool over_budget, fired_eof, fired_short; size_t delivered; };
  Dec decode(const Bytes &stream, int64_t eof_at = -1, int64_t short_at = -1, size_t short_n = 0) {
    Dec d; IO io; io.in = stream.data(); io.in_len = stream.size(); io.out = &d.out; io.eof_at = eof_at; io.short_at = short_at; io.short_n = short_n;
    io.budget = 8 * (stream.size() + 64) + 4096;
    g_phase = "decode";
    d.ok = sut_decode(&G.vt, IO::rd, IO::wr, &io) != 0; ticks += io.rcalls + io.wcalls;
    d.over_budget = io.over_budget; d.fired_eof = io.fired_eof; d.fired_short = io.fired_short; d.delivered = io.in_pos;
    return d;
  }
  static size_t modpos(int64_t p, size_t n) { if (n == 0) return 0; int64_t m = p % (int64_t) n; if (m < 0) m += (int64_t) n; return (size_t) m; }

  // apply one stored-stream fault; returns its family ("trunc","extend","alter") or "" if not a stream fault
  std::string apply_fault(const Json &op, Bytes &cur, const Bytes &enc1) {
    const std::string &o = op[0].s; size_t n = cur.size();
    auto arg = [&](size_t i) -> int64_t { return i < op.size() ? op[i].num() : 0; };
    if (o == "trunc") { if (n == 0) return ""; size_t k = modpos(arg(1), n); cur.resize(k); C->count("fault_truncate"); return "trunc"; }
    if (o == "extend") { size_t k = (size_t) std::max<int64_t>(1, arg(1) % 64); cur.insert(cur.end(), k, (uint8_t) arg(2)); C->count("fault_extend"); return "extend"; }
    if (n == 0) return "";
    if (o == "xor") { size_t k = modpos(arg(1), n); uint8_t m = (uint8_t) arg(2); if (!m) m = 1; cur[k] ^= m; C->count("fault_bitflip"); return "alter"; }
    if (o == "set") { size_t k = modpos(arg(1), n); uint8_t v = (uint8_t) arg(2); if (cur[k] == v) v ^= 0x55; cur[k] = v; C->count("fault_set_byte"); return "alter"; }
    if (o == "zero") { size_t k = modpos(arg(1), n), l = (size_t) std::max<int64_t>(1, arg(2)); for (size_t i = k; i < n && i < k + l; i++) cur[i] = 0; C->count("fault_lost_write_zero_range"); return "alter"; }
    if (o == "dup") { size_t a = modpos(arg(1), n), l = (size_t) std::max<int64_t>(1, arg(2)), to = modpos(arg(3), n); for (size_t i = 0; i < l && a + i < n && to + i < n; i++) cur[to + i] = cur[a + i]; C->count("fault_duplicated_range"); return "alter"; }
    if (o == "swap") { size_t a = modpos(arg(1), n), b = modpos(arg(2), n), l = (size_t) std::max<int64_t>(1, arg(3)); for (size_t i = 0; i < l && a + i < n && b + i < n; i++) std::swap(cur[a + i], cur[b + i]); C->count("fault_reordered_ranges"); return "alter"; }
    if (o == "inject") {  // format-aware corruption: overwrite with a crafted element [tag][symlen uint][literal][reflen uint][offset uint]
      size_t k = n > 3 ? 3 + modpos(arg(1), n - 3) : 0; uint32_t reflen = (uint32_t) arg(2) - 3u; uint32_t off = (uint32_t) arg(3); size_t symlen = (size_t) (arg(4) & 0x3f); bool wide = arg(5) != 0;
      Bytes e; auto put_uint = [&](uint32_t u, bool w5) { if (w5) { e.push_back((uint8_t) (0x00)); for (int i = 3; i >= 0; i--) e.push_back((uint8_t) (u >> (8 * i))); return; } int nn = 1; while (nn <= 4 && u >= (1u << 7 * nn)) nn++; if (nn > 4) { e.push_back(0); for (int i = 3; i >= 0; i--) e.push_back((uint8_t) (u >> (8 * i))); return; } e.push_back((uint8_t) ((1 << (8 - nn)) | ((u >> (nn - 1) * 8) & 0xff))); for (int i = 2; i <= nn; i++) e.push_back((uint8_t) ((u >> (nn - i) * 8) & 0xff)); };
      e.push_back((uint8_t) (((symlen < 7 ? symlen : 7) << 5) | 0x1f)); if (symlen >= 7) put_uint((uint32_t) symlen, false);
      for (size_t i = 0; i < symlen; i++) e.push_back((uint8_t) ('p' + i % 7));
      put_uint(reflen, wide); put_uint(off, false);
      for (size_t i = 0; i < e.size(); i++) { if (k + i < cur.size()) cur[k + i] = e[i]; else cur.push_back(e[i]); }
      C->count("fault_injected_crafted_element"); return "alter";
    }
    if (o == "flood") {  // [tag: no literal, long reference][reflen uint, 5-byte form][offset uint] repeated
      size_t k = n > 3 ? 3 + modpos(arg(1), n - 3) : 0; uint32_t reflen = (uint32_t) arg(2) - 3u; uint32_t off = (uint32_t) arg(3); int64_t cnt = std::min<int64_t>(std::max<int64_t>(arg(4), 1), 600000);
      Bytes e; e.push_back(0x1f); e.push_back(0x00); for (int i = 3; i >= 0; i--) e.push_back((uint8_t) (reflen >> (8 * i))); e.push_back((uint8_t) (0x80 | (off & 0x7f)));
      cur.resize(k); cur.push_back(0x40); cur.push_back('p'); cur.push_back('q');   /* one element with two literal symbols, so that small offsets are defined */
      for (int64_t c = 0; c < cnt; c++) cur.insert(cur.end(), e.begin(), e.end());
      C->count("fault_flood_of_crafted_elements"); return "alter";
    }
    if (o == "splice") {  // torn write: prefix of this stream, suffix of the encoding of other data
      Bytes other; Json p = part("rand"); p.set("alpha", 7); p.set("seed", (long long) arg(2)); p.set("len", (long long) std::min<size_t>(enc1.size() * 2 + 16, 600000)); Bytes od; build_part(p, od);
      encode(od, other, 0); size_t k = n > 5 ? 4 + modpos(arg(1), n - 4) : n; /* k >= 4: a splice inside the common "MIR" prefix would just be the other (valid) stream */
      Bytes t(cur.begin(), cur.begin() + k); if (k < other.size()) t.insert(t.end(), other.begin() + k, other.end());
      if (t == other) return "";  /* the splice point lies in a common prefix: the result is simply the other, valid stream */
      cur = t; C->count("fault_torn_write_splice"); return "alter";
    }
    return "";
  }

  void check_damaged(const Bytes &cur, const Bytes &enc1, const Bytes &plain, const Dec &d, const std::string &family, const std::string &what, Outcome &out) {
    if (d.over_budget) { out.fail("stream_hang", family, "decoder exceeded its reader-call budget on a damaged stream: " + what); return; }
    bool reader_fault = d.fired_eof || d.fired_short;
    // What counts is what the reader call-back delivered: stored-stream and reader faults can cancel (bytes appended to the stream and
    // an end of file signalled exactly where the original ended), and then the decoder saw the unmodified encoder output.
    bool saw_original = d.delivered == enc1.size() && cur.size() >= enc1.size() && std::equal(enc1.begin(), enc1.end(), cur.begin()) && (d.fired_eof || cur.size() == enc1.size());
    if ((cur == enc1 && !reader_fault) || (saw_original && d.ok)) {  // the faults cancelled out: this is the unmodified encoder output
      if (!d.ok || d.out != plain) out.fail("stream_lossy", d.ok ? "mismatch" : "decode_fail", "unmodified stream not decoded to the original after no-op faults: " + what);
      return;
    }
    C->count("damaged_decodes");
    if (!d.ok) { C->count("damaged_rejected"); return; }
    if (family == "alter" && cur.size() == enc1.size() && !reader_fault && d.out == plain) { C->count("accepted_equivalent"); return; }
    out.fail("stream_accepts_damaged", reader_fault ? "reader_fault" : family,
             fmt("decoder reported success on a damaged stream (%s; %zu -> %zu bytes; decoded %zu bytes, %s the original %zu): ", family.c_str(), enc1.size(), cur.size(), d.out.size(), d.out == plain ? "equal to" : "different from", plain.size()) + what);
  }

  void run_A(const Json &plan, Outcome &out) {
    const Json &kn = plan.at("knobs");
    Bytes plain = build_data(plan.at("data"));
    G.new_run(kn.gets("guard", "end") != "start", (uint8_t) kn.geti("junk", 0xA5));
    Bytes enc1, enc2;
    bool eok = encode(plain, enc1, (size_t) kn.geti("rchunk", 0));
    th.u64(enc1.size()); th.bytes(enc1.data(), enc1.size());
    if (!eok) { out.fail("stream_lossy", "encode_fail", fmt("encoder reported failure on %zu plain bytes with a healthy writer", plain.size())); return; }
    if (kn.geti("twice", 0)) { encode(plain, enc2, 0); if (enc2 != enc1) { out.fail("stream_nondeterministic", "encode", "two encodings of the same data differ"); return; } }
    size_t B = sut_buf_len();
    if (plain.size() >= B) C->count("spans_2_buffers"); if (plain.size() >= 2 * B) C->count("spans_3_buffers");
    if (plain.size() == B || plain.size() == 2 * B) C->count("plain_len_exact_buffer_multiple");
    if (enc1.size() > 12 && enc1.size() < plain.size() / 2) C->count("compressible_input");
    Dec d0 = decode(enc1);
    if (d0.over_budget) { out.fail("stream_hang", "fault_free", "decoder exceeded its reader-call budget on an unmodified stream"); return; }
    if (!d0.ok) { out.fail("stream_lossy", "decode_fail", fmt("decoder rejects the unmodified encoding of %zu plain bytes (%zu encoded)", plain.size(), enc1.size())); return; }
    if (d0.out != plain) { size_t k = 0; while (k < plain.size() && k < d0.out.size() && plain[k] == d0.out[k]) k++; out.fail("stream_lossy", "mismatch", fmt("round trip of %zu plain bytes differs at offset %zu (decoded %zu bytes)", plain.size(), k, d0.out.size())); return; }
    C->count("roundtrips_fault_free");
    const Json &ops = plan.at("ops");
    Bytes cur = enc1; std::string family; int64_t eof_at = -1, short_at = -1; size_t short_n = 0; bool any = false; std::string what;
    for (auto &op : ops.a) {
      if (out.violation) break;
      if (op.k != Json::Arr || op.size() == 0) continue;
      const std::string &o = op[0].s;
      if (o == "sweep") { sweep(op, enc1, plain, out); continue; }
      if (o == "rd_eof") { eof_at = op[1].num(); any = true; what += "reader EOF at call " + std::to_string(eof_at) + "; "; continue; }
      if (o == "rd_short") { short_at = op[1].num(); short_n = (size_t) op[2].num(); any = true; what += "short read at call " + std::to_string(short_at) + "; "; continue; }
      std::string f = apply_fault(op, cur, enc1);
      if (!f.empty()) { any = true; what += op.str() + " "; if (family.empty() || f != "alter") family = f; if (cur.size() != enc1.size()) family = cur.size() < enc1.size() ? "trunc" : "extend"; }
    }
    if (any && !out.violation) {
      if (family.empty()) family = "reader";
      Dec d = decode(cur, eof_at, short_at, short_n);
      if (d.fired_eof) C->count("fault_reader_early_eof"); if (d.fired_short) C->count("fault_reader_short_read");
      check_damaged(cur, enc1, plain, d, family, what, out);
      out.nontrivial = true;
      // where did the damage land?
      size_t k = 0; while (k < cur.size() && k < enc1.size() && cur[k] == enc1[k]) k++;
      if (k < 3) C->count("damage_in_prefix"); else if (enc1.size() >= 9 && k >= enc1.size() - 9) C->count("damage_in_trailer"); else C->count("damage_in_elements");
    }
  }

  void sweep(const Json &op, const Bytes &enc1, const Bytes &plain, Outcome &out) {
    std::string kind = op.size() > 1 ? op[1].s : "trunc"; int64_t lo = op.size() > 2 ? op[2].num() : 0, hi = op.size() > 3 ? op[3].num() : (1 << 20);
    size_t n = enc1.size();
    if (kind == "ext") {
      for (int64_t v = std::max<int64_t>(lo, 0); v < std::min<int64_t>(hi, 256) && !out.violation; v++) {
        Bytes cur = enc1; cur.push_back((uint8_t) v); Dec d = decode(cur); C->count("fault_extend"); C->count("sweep_cases");
        check_damaged(cur, enc1, plain, d, "extend", fmt("one byte 0x%02x appended", (unsigned) v), out);
      }
      out.nontrivial = true; return;
    }
    for (int64_t k = std::max<int64_t>(lo, 0); k < std::min<int64_t>(hi, (int64_t) n) && !out.violation; k++) {
      Bytes cur = enc1; std::string fam = "alter";
      if (kind == "trunc") { cur.resize((size_t) k); fam = "trunc"; C->count("fault_truncate"); }
      else {
        uint8_t b = cur[k], nb = kind == "xor01" ? b ^ 1 : kind == "xor80" ? b ^ 0x80 : kind == "set00" ? 0 : kind == "setff" ? 0xff : (uint8_t) (b + 1);
        if (nb == b) continue; cur[k] = nb; C->count("fault_set_byte");
      }
      C->count("sweep_cases");
      Dec d = decode(cur);
      check_damaged(cur, enc1, plain, d, fam, fmt("%s at byte %lld of %zu", kind.c_str(), (long long) k, n), out);
      if (out.violation) { out.detail += fmt(" [sweep position %lld]", (long long) k); }
    }
    out.nontrivial = true;
  }

  // ------------------------------------------------------------------------------------------ level B execution
  static StreamSim *self; static jmp_buf err_jmp; static int err_code; static char err_msg[200];
  static void MIR_NO_RETURN err_func(MIR_error_type_t t, const char *format, ...) {
    err_code = (int) t; va_list ap; va_start(ap, format); vsnprintf(err_msg, sizeof err_msg, format, ap); va_end(ap);
    longjmp(err_jmp, 1);
  }
  struct MIR_alloc balloc; // routes reduce_data-sized requests to the guard allocator
  static void *b_malloc(size_t n, void *u) { StreamSim *s = (StreamSim *) u; if (n == G.size && !G.live) return G.get(n); return s->A.do_malloc(n); }
  static void *b_calloc(size_t a, size_t b, void *u) { return ((StreamSim *) u)->A.do_calloc(a, b); }
  static void *b_realloc(void *p, size_t o, size_t n, void *u) { return ((StreamSim *) u)->A.do_realloc(p, o, n); }
  static void b_free(void *p, void *u) { uint8_t *q = (uint8_t *) p; if (q >= G.lo_guard && q < G.hi_guard + PG) { G.put(p); return; } ((StreamSim *) u)->A.do_free(p); }
  Bytes bstore; size_t bpos = 0; int64_t b_eof_at = -1; uint64_t b_rcalls = 0; bool b_fired_eof = false;
  static int b_writer(MIR_context_t, uint8_t byte) { self->bstore.push_back(byte); self->ticks++; return byte; }
  static int b_reader(MIR_context_t) { StreamSim *s = self; s->ticks++; int64_t c = (int64_t) s->b_rcalls++; if (s->b_eof_at >= 0 && c >= s->b_eof_at) { if (s->bpos < s->bstore.size()) s->b_fired_eof = true; return EOF; } if (s->bpos >= s->bstore.size()) return EOF; return s->bstore[s->bpos++]; }
  static std::string ctx_text(MIR_context_t ctx) { char *buf = nullptr; size_t len = 0; FILE *f = open_memstream(&buf, &len); MIR_output(ctx, f); fclose(f); std::string s(buf, len); free(buf); return s; }
  static std::string padmod(int64_t pad, int alpha, uint64_t seed) {
    if (pad <= 0) return "";
    std::string s = "m_pad: module\npadstr: string \""; uint64_t x = seed * 2654435761u + 12345;
    for (int64_t i = 0; i < pad; i++) { unsigned c = alpha <= 26 ? 'a' + xs(x) % alpha : 33 + xs(x) % 90; if (c == '"' || c == '\\') c = 'z'; s += (char) c; }
    return s + "\"\n endmodule\n";
  }
  // returns false and sets err on error call-back
  bool write_modules(const std::string &text, Bytes &stream, std::string &orig_text, std::string &err) {
    A.reset(); balloc.malloc = b_malloc; balloc.calloc = b_calloc; balloc.realloc = b_realloc; balloc.free = b_free; balloc.user_data = this;
    MIR_context_t ctx = MIR_init2(&balloc, nullptr);
    MIR_set_error_func(ctx, err_func);
    bool ok = true;
    if (setjmp(err_jmp) == 0) {
      g_phase = "scan"; MIR_scan_string(ctx, text.c_str());
      orig_text = ctx_text(ctx);
      bstore.clear(); g_phase = "MIR_write"; MIR_write_with_func(ctx, b_writer); stream = bstore;
      g_phase = "finish"; MIR_finish(ctx);
    } else { ok = false; err = err_msg; /* context abandoned */ }
    return ok;
  }
  // returns: 0 read ok, 1 error call-back
  int read_modules(const Bytes &stream, std::string &text, std::string &err, int64_t eof_at) {
    A.reset(); G.live = false;
    MIR_context_t ctx = MIR_init2(&balloc, nullptr);
    MIR_set_error_func(ctx, err_func);
    bstore = stream; bpos = 0; b_rcalls = 0; b_eof_at = eof_at; b_fired_eof = false;
    int res = 0;
    if (setjmp(err_jmp) == 0) {
      g_phase = "MIR_read"; MIR_read_with_func(ctx, b_reader);
      text = ctx_text(ctx);
      g_phase = "finish"; MIR_finish(ctx);
    } else { res = 1; err = err_msg; }
    return res;
  }
  size_t plain_len(const Bytes &stream) { Dec d = decode(stream); return d.ok ? d.out.size() : (size_t) -1; }

  void run_B(const Json &plan, Outcome &out) {
    const Json &kn = plan.at("knobs");
    G.new_run(kn.gets("guard", "end") != "start", (uint8_t) kn.geti("junk", 0xA5));
    size_t ci = (size_t) kn.geti("corpus", 0) % (sizeof CORPUS / sizeof *CORPUS);
    int64_t pad = kn.geti("pad", 0), exact = kn.geti("exact_plain", 0); int alpha = (int) kn.geti("pad_alpha", 4); uint64_t pseed = (uint64_t) kn.geti("pad_seed", 1);
    Bytes stream; std::string otext, err;
    std::string text = std::string(CORPUS[ci]) + padmod(pad, alpha, pseed);
    if (!write_modules(text, stream, otext, err)) { out.fail("mirbin_lossy", "write_error", "error call-back while scanning/writing a corpus module: " + err); return; }
    if (exact > 0) {  // steer the plain (uncompressed) length to an exact multiple of the decoder's buffer length
      for (int it = 0; it < 6; it++) {
        size_t pl = plain_len(stream); if (pl == (size_t) -1 || (int64_t) pl == exact) break;
        pad += exact - (int64_t) pl; if (pad < 1) { pad = 1; }
        text = std::string(CORPUS[ci]) + padmod(pad, alpha, pseed);
        if (!write_modules(text, stream, otext, err)) { out.fail("mirbin_lossy", "write_error", "error call-back while writing: " + err); return; }
      }
      if ((int64_t) plain_len(stream) == exact) C->count("mirbin_plain_len_exact_buffer_multiple");
    }
    th.u64(stream.size()); th.bytes(stream.data(), std::min<size_t>(stream.size(), 4096));
    size_t pl = plain_len(stream); if (pl != (size_t) -1 && pl >= sut_buf_len()) C->count("mirbin_spans_2_buffers");
    std::string rtext;
    if (read_modules(stream, rtext, err, -1) != 0) { out.fail("mirbin_lossy", "read_error", fmt("MIR_read of an unmodified MIR_write stream (%zu bytes, plain %zu) calls the error function: ", stream.size(), pl) + err); return; }
    if (rtext != otext) { out.fail("mirbin_lossy", "text_mismatch", "module text after binary round trip differs from the original"); return; }
    C->count("mirbin_roundtrips_fault_free");
    const Json &ops = plan.at("ops"); Bytes cur = stream; std::string family, what; int64_t eof_at = -1; bool any = false;
    for (auto &op : ops.a) {
      if (op.k != Json::Arr || op.size() == 0) continue; const std::string &o = op[0].s;
      if (o == "rd_eof") { eof_at = op[1].num(); any = true; what += "reader EOF at call " + std::to_string(eof_at) + "; "; continue; }
      if (o == "rd_short" || o == "sweep") continue;
      std::string f = apply_fault(op, cur, stream);
      if (!f.empty()) { any = true; what += op.str() + " "; if (family.empty() || f != "alter") family = f; if (cur.size() != stream.size()) family = cur.size() < stream.size() ? "trunc" : "extend"; }
    }
    if (!any) return;
    if (family.empty()) family = "reader";
    g_damaged_read = !(cur == stream);
    std::string dtext; int rr = read_modules(cur, dtext, err, eof_at);
    g_damaged_read = false;
    if (b_fired_eof) C->count("fault_reader_early_eof");
    out.nontrivial = true;
    bool saw_original_b = bpos == stream.size() && cur.size() >= stream.size() && std::equal(stream.begin(), stream.end(), cur.begin()) && b_fired_eof && rr == 0;  // (faults that cancel, as at level A)
    if ((cur == stream && !b_fired_eof) || saw_original_b) { if (rr != 0 || dtext != otext) out.fail("mirbin_lossy", "noop_faults", "unmodified stream not read back after no-op faults"); return; }
    C->count("mirbin_damaged_reads");
    if (rr != 0) { C->count("mirbin_damaged_rejected"); return; }
    if (family == "alter" && !b_fired_eof && dtext == otext) { C->count("accepted_equivalent"); return; }
    out.fail("mirbin_accepts_damaged", b_fired_eof ? "reader_fault" : family, fmt("MIR_read accepted a damaged binary stream without calling the error function (%s; %zu -> %zu bytes; resulting modules %s the original): ", family.c_str(), stream.size(), cur.size(), dtext == otext ? "equal to" : "differ from") + what);
  }

  Outcome execute(const Json &plan, RunCtx &ctx) override {
    Outcome out; C = &ctx; th = Fnv(); ticks = 0; self = this;
    if (plan.at("knobs").gets("level", "A") == "B") run_B(plan, out); else run_A(plan, out);
    if (G.bad_free) out.fail("stream_alloc", "free", "free of a pointer inside the guard region that is not the live block");
    out.trace_hash = th.h; out.ticks = ticks;
    if (out.violation) ctx.count("violations");
    return out;
  }

  std::vector<Json> simplify(const Json &plan) override {
    std::vector<Json> c; const Json &ops = plan.at("ops");
    // narrow sweeps by bisection
    for (size_t i = 0; i < ops.size(); i++) if (ops[i].k == Json::Arr && ops[i].size() >= 4 && ops[i][0].s == "sweep") {
      int64_t lo = ops[i][2].num(), hi = std::min<int64_t>(ops[i][3].num(), 1 << 20);
      if (hi - lo > 1) { int64_t mid = lo + (hi - lo) / 2; for (auto rg : {std::make_pair(lo, mid), std::make_pair(mid, hi)}) { Json p = plan; (*p.find("ops"))[i][2] = Json((long long) rg.first); (*p.find("ops"))[i][3] = Json((long long) rg.second); c.push_back(p); } }
    }
    // shrink data parts
    if (const Json *d = plan.find("data")) if (d->k == Json::Arr) {
      for (size_t i = 0; i < d->size(); i++) {
        if (d->size() > 1) { Json p = plan; p.find("data")->a.erase(p.find("data")->a.begin() + i); c.push_back(p); }
        int64_t len = (*d)[i].geti("len", 0);
        for (int64_t nl : {len / 2, len - 1, len - 256}) if (nl >= 0 && nl < len) { Json p = plan; (*p.find("data"))[i].set("len", (long long) nl); c.push_back(p); }
      }
    }
    const Json &kn = plan.at("knobs");
    for (const char *k : {"pad", "exact_plain", "rchunk", "twice"}) if (kn.geti(k, 0) > 0) { Json p = plan; p.find("knobs")->set(k, 0); c.push_back(p); if (kn.geti(k, 0) > 1 && std::string(k) == "pad") { Json q = plan; q.find("knobs")->set(k, (long long) (kn.geti(k, 0) / 2)); c.push_back(q); } }
    return c;
  }
};
StreamSim *StreamSim::self; jmp_buf StreamSim::err_jmp; int StreamSim::err_code; char StreamSim::err_msg[200];

int main(int argc, char **argv) { StreamSim h; return runner_main(argc, argv, h); }
