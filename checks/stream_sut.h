#ifndef STREAM_SUT_H
#define STREAM_SUT_H
#include <stddef.h>
#ifdef __cplusplus
extern "C" {
#endif
#include "mir-alloc.h"
typedef size_t (*sut_reader_t) (void *start, size_t len, void *aux_data);
typedef size_t (*sut_writer_t) (const void *start, size_t len, void *aux_data);
int sut_encode (MIR_alloc_t a, sut_reader_t r, sut_writer_t w, void *aux);
int sut_decode (MIR_alloc_t a, sut_reader_t r, sut_writer_t w, void *aux);
size_t sut_data_size (void);
size_t sut_buf_off (void);
size_t sut_buf_len (void);
void *sut_encode_start (MIR_alloc_t a, sut_writer_t w, void *aux);
void sut_encode_put (void *d, int c);
int sut_encode_finish (MIR_alloc_t a, void *d);
void *sut_decode_start (MIR_alloc_t a, sut_reader_t r, void *aux);
int sut_decode_get (void *d);
int sut_decode_finish (MIR_alloc_t a, void *d);
#ifdef __cplusplus
}
#endif
#endif
