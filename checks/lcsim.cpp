// lcsim — lifecycle simulator for C17 / C13 / C16 / C03.
// One real MIR context (plus a helper context for binary round trips) lives inside simulator-owned parties: the general
// allocator (simalloc), the code allocator (simcode: placement policy + real W^X windows), the name resolver, the
// externals (which may re-enter MIR), the error call-back (longjmp = crash point of the history) and the byte store.
// A run is an explicit history of API operations on a template program (prog/dsl.hpp) whose meaning is given by an
// independent C++ model.
#include <setjmp.h>
#include <ucontext.h>
#include "../sim/runner.hpp"
#include "../sim/simalloc.hpp"
#include "../sim/simcode.hpp"
#include "../sim/libwrap.hpp"
#include "../sim/symtab.hpp"
#include "../prog/dsl.hpp"
extern "C" {
#include "mir.h"
#include "mir-gen.h"
#include "c2mir/c2mir.h"
}

using namespace sim;
using prog::FuncInfo;

static SymTab g_sym;
static const char *g_phase = "";
static char g_phase_buf[160];
static int g_opno = -1;  // index of the plan op being executed
static void phase(const char *what, const std::string &arg = "") {
  snprintf(g_phase_buf, sizeof g_phase_buf, "%s %s [op %d]", what, arg.c_str(), g_opno); g_phase = g_phase_buf;
  if (g_slot) snprintf((char *) g_slot->note, NOTE_LEN, "during %s", g_phase);  // what a watchdog kill reports
}

#define I10 int64_t, int64_t, int64_t, int64_t, int64_t, int64_t, int64_t, int64_t, int64_t, int64_t
typedef int64_t (*wide_fn)(I10, I10, I10, I10, I10, I10, I10);   // 70 integer parameters
#define V10(a, b) a[b], a[b + 1], a[b + 2], a[b + 3], a[b + 4], a[b + 5], a[b + 6], a[b + 7], a[b + 8], a[b + 9]
typedef int64_t (*universal_fn)(int64_t, int64_t, int64_t, int64_t, int64_t, int64_t, int64_t, int64_t, double, double, double, double, double, double, double, double);

#include "../sim/sysvcall.hpp"

// ---------------------------------------------------------------------------------------------- fault handler
static void crash_handler(int sig, siginfo_t *si, void *uc) {
  ucontext_t *u = (ucontext_t *) uc; void *rip = (void *) u->uc_mcontext.gregs[REG_RIP];
  bool wr = (u->uc_mcontext.gregs[REG_ERR] & 2) != 0;
  std::string fn = g_sym.in_text(rip) ? g_sym.name(rip) : "jit_or_harness";
  if (g_slot) {
    SimCode *owner = sig == SIGSEGV ? SimCode::owner_of(si->si_addr) : nullptr;
    // The simulated allocator fills freed blocks with 0xDD: library code (not generated code) that faults while a register holds
    // such a pattern was following a pointer read from freed memory.
    bool poison = false;
    if (g_sym.in_text(rip)) for (int r = 0; r < 16 && !poison; r++) { uint64_t v = (uint64_t) u->uc_mcontext.gregs[r]; if (r != REG_RIP && ((v >> 16) == 0xddddddddddddULL || ((v + 0x10000) >> 20) == 0xdddddddddddULL)) poison = true; }
    if (poison && (sig == SIGSEGV || sig == SIGBUS) && !owner)
      snprintf((char *) g_slot->note, NOTE_LEN, "CLASS=alloc_use_after_free SIG=crash_in_%s %s in %s while a register holds the poison of a freed block (pointer read from freed memory) during %s", fn.c_str(), signame(sig), fn.c_str(), g_phase);
    else if (owner && wr)
      snprintf((char *) g_slot->note, NOTE_LEN, "CLASS=code_write_outside_window SIG=%s store to code memory %p outside a mem_protect(WRITE_EXEC)..mem_protect(READ_EXEC) window, in %s during %s", fn.c_str(), si->si_addr, fn.c_str(), g_phase);
    else
      snprintf((char *) g_slot->note, NOTE_LEN, "CLASS=crash SIG=%s_in_%s %s at %p (%s) in %s during %s", signame(sig), fn.c_str(), signame(sig), si->si_addr, wr ? "write" : "read", fn.c_str(), g_phase);
  }
  _exit(77);
}

// ---------------------------------------------------------------------------------------------- the world
struct LcSim;
static LcSim *g_self;
static void MIR_NO_RETURN err_func(MIR_error_type_t t, const char *format, ...);
struct Layout { uint64_t a, a2, k, k2, kspan; };
// code regions deliberately do not start on a 4GB boundary: a displacement or address truncated to 32 bits must not land on mapped code
static const Layout LAYOUT0 = {0x230000000000ULL, 0x231000000000ULL, 0x240012340000ULL, 0x250012340000ULL, 1ull << 40};
static void (*g_yield_hook)(int kind) = nullptr;  // tasksim: scheduling point at external calls

struct LcSim : Harness {
  SimAlloc A, A2; SimCode K, K2; Layout L = LAYOUT0; bool own_handlers = true;
  jmp_buf err_jmp; int err_code = 0; char err_msg[256];
  const char *name() override { return "lcsim"; }
  int hang_seconds() override { const char *e = getenv("VERIF_HANG_S"); return e ? atoi(e) : 30; }  // (the override is a development aid for minimising hangs)
  void worker_init() override {
    if (A.base) return;
    if (!A.map((void *) L.a, 1ull << 30) || !A2.map((void *) L.a2, 1ull << 30)) { fprintf(stderr, "lcsim: cannot map arenas\n"); _exit(3); }
    K.init((void *) L.k, L.kspan); K2.init((void *) L.k2, L.kspan);
    if (g_sym.syms.empty() && !g_sym.load("libmir.so")) { fprintf(stderr, "lcsim: cannot read libmir.so symbols\n"); _exit(3); }
    wrap::hooks.malloc_ = w_malloc; wrap::hooks.calloc_ = w_calloc; wrap::hooks.realloc_ = w_realloc; wrap::hooks.free_ = w_free; wrap::hooks.other = w_other;
    wrap::hooks.clock_ticks = &clock_ticks; wrap::hooks.on_exit = w_exit;
    if (!own_handlers) return;
    static uint8_t altstack[1 << 16]; stack_t ss; ss.ss_sp = altstack; ss.ss_size = sizeof altstack; ss.ss_flags = 0; sigaltstack(&ss, nullptr);
    struct sigaction sa; memset(&sa, 0, sizeof sa); sa.sa_sigaction = crash_handler; sa.sa_flags = SA_SIGINFO | SA_ONSTACK | SA_NODEFER;
    for (int s : {SIGSEGV, SIGBUS, SIGILL, SIGFPE, SIGABRT}) sigaction(s, &sa, nullptr);
  }
  static void w_exit(int code, void *ra) {
    std::string fn = g_sym.name(ra);
    if (g_slot) snprintf((char *) g_slot->note, NOTE_LEN, "CLASS=crash SIG=exit_in_%s library code called exit(%d) from %s during %s", fn.c_str(), code, fn.c_str(), g_phase);
  }

  // ------------------------------------------------------------------------------------------ libwrap policy
  // While a context created with user allocators is alive every libc allocation call *from library code* is an event.
  uint64_t clock_ticks = 0; bool user_ctx_alive = false; Outcome *cur_out = nullptr; RunCtx *C = nullptr;
  std::map<std::string, uint64_t> foreign;  // "malloc@func" -> count
  static void *w_malloc(size_t n, void *ra) { g_self->libc_event("malloc", ra); return malloc(n); }
  static void *w_calloc(size_t a, size_t b, void *ra) { g_self->libc_event("calloc", ra); return calloc(a, b); }
  static void *w_realloc(void *p, size_t n, void *ra) { g_self->libc_event("realloc", ra); if (g_self->A.owns(p) || g_self->A2.owns(p)) { g_self->libc_event("realloc_of_user_block", ra); return malloc(n); } return realloc(p, n); }
  static bool w_free(void *p, void *ra) {
    LcSim *s = g_self;
    if (p && (s->A.owns(p) || s->A2.owns(p))) { s->libc_event("free_of_user_block", ra); return true; }  // absorbed: the block leaks in the ledger too
    s->libc_event("free", ra); return false;
  }
  static void w_other(const char *name, void *ra) { if (!strcmp(name, "getenv")) return; g_self->libc_event(name, ra); }
  void libc_event(const char *what, void *ra) {
    if (!user_ctx_alive) return;
    std::string fn = g_sym.name(ra);
    foreign[std::string(what) + "@" + fn]++;
  }

  // ------------------------------------------------------------------------------------------ externals
  std::vector<prog::ExtCall> ext_log; std::map<int64_t, void *> reenter_addr; int ext_depth = 0;
  // Each simulated task registers its own copy of the external (same behaviour, different address): a call that arrives at
  // another task's copy was bound through state that is not the context's.
  int ext_variant = 0;
  template <int K> static int64_t ext_v(int64_t tag, int64_t v) {
    if (g_self && g_self->ext_variant != K && g_self->cur_out) g_self->cur_out->fail("foreign_external_binding", "ext", fmt("a call of the external 'ext' made by the context of task %d arrived at the address registered by task %d", g_self->ext_variant, K));
    return ext_c(tag, v);
  }
  void *ext_addr() const { static void *t[] = {(void *) ext_v<0>, (void *) ext_v<1>, (void *) ext_v<2>, (void *) ext_v<3>}; return t[ext_variant & 3]; }
  static int64_t ext_c(int64_t tag, int64_t v) {
    LcSim *s = g_self; s->ext_log.push_back({tag, v}); s->clock_ticks++;
    if (g_yield_hook) { g_yield_hook(9); s = g_self; }
    auto it = s->reenter_addr.find(tag);
    if (it != s->reenter_addr.end() && it->second && s->ext_depth < 3) {
      s->ext_depth++; s->C->count("ext_reentered_mir");
      int64_t r = ((universal_fn) it->second)(1, v, 0, 0, 0, 0, 0, 0, 2.0, 3.0, 4.0, 5.0, 6.0, 7.0, 8.0, 9.0) + 1; s->ext_depth--; return r;
    }
    return (int64_t) ((uint64_t) v * 3 + (uint64_t) tag);
  }
  // external with parameters of mixed kinds (two integers, two long doubles beyond the registers): see prog::extm_value
  static int64_t extm_c(int64_t t, float x, long double y, int n, double z, unsigned char b, long double w, int64_t s7, float x2, short h, int64_t p, unsigned q, int64_t last) {
    LcSim *s = g_self; s->ext_log.push_back({200, t}); s->clock_ticks++; s->C->count("ext_mixed_kinds_called");
    return (int64_t) ((uint64_t) t * 3 + (uint64_t) (int64_t) x * 5 + (uint64_t) (int64_t) y * 7 + (uint64_t) (int64_t) n * 11 + (uint64_t) (int64_t) z * 13 + (uint64_t) b * 17 + (uint64_t) (int64_t) w * 19 + (uint64_t) s7 * 23
                      + (uint64_t) (int64_t) x2 * 29 + (uint64_t) (int64_t) h * 31 + (uint64_t) p * 37 + (uint64_t) q * 41 + (uint64_t) last * 43);
  }
  // external with many integer arguments: folds the first n
  static int64_t extn_c(int64_t n, int64_t a1, int64_t a2, int64_t a3, int64_t a4, int64_t a5, int64_t a6, int64_t a7, int64_t a8, int64_t a9, int64_t a10, int64_t a11, int64_t a12, int64_t a13, int64_t a14, int64_t a15, int64_t a16, int64_t a17, int64_t a18, int64_t a19, int64_t a20,
                        int64_t b1, int64_t b2, int64_t b3, int64_t b4, int64_t b5, int64_t b6, int64_t b7, int64_t b8, int64_t b9, int64_t b10, int64_t b11, int64_t b12, int64_t b13, int64_t b14, int64_t b15, int64_t b16, int64_t b17, int64_t b18, int64_t b19, int64_t b20,
                        int64_t c1, int64_t c2, int64_t c3, int64_t c4, int64_t c5, int64_t c6, int64_t c7, int64_t c8, int64_t c9, int64_t c10, int64_t c11, int64_t c12, int64_t c13, int64_t c14, int64_t c15, int64_t c16, int64_t c17, int64_t c18, int64_t c19, int64_t c20,
                        int64_t d1, int64_t d2, int64_t d3, int64_t d4, int64_t d5, int64_t d6, int64_t d7, int64_t d8, int64_t d9, int64_t d10) {
    int64_t a[] = {a1, a2, a3, a4, a5, a6, a7, a8, a9, a10, a11, a12, a13, a14, a15, a16, a17, a18, a19, a20, b1, b2, b3, b4, b5, b6, b7, b8, b9, b10, b11, b12, b13, b14, b15, b16, b17, b18, b19, b20,
                   c1, c2, c3, c4, c5, c6, c7, c8, c9, c10, c11, c12, c13, c14, c15, c16, c17, c18, c19, c20, d1, d2, d3, d4, d5, d6, d7, d8, d9, d10};
    LcSim *s = g_self; s->ext_log.push_back({100 + n, a1 - 1}); s->clock_ticks++; s->C->count("ext_many_args_called");
    uint64_t r = (uint64_t) n; for (int64_t i = 0; i < n && i < 70; i++) r = r * 31 + (uint64_t) a[i];
    return (int64_t) r;
  }
  // native twins of synthetic definitions {"salt":77000+k,"na":1,"body":[["ret","a0"]]} used by load_external / resolver
  template <int K> static int64_t extdef(int64_t a0) { return (int64_t) ((uint64_t) a0 * prog::RETMUL + (uint64_t) (77000 + K)); }
  static void *extdef_addr(int k) { static void *t[] = {(void *) extdef<0>, (void *) extdef<1>, (void *) extdef<2>, (void *) extdef<3>, (void *) extdef<4>, (void *) extdef<5>, (void *) extdef<6>, (void *) extdef<7>}; return t[k & 7]; }
  static int64_t *extdata_addr(int k) { static int64_t v[8] = {88000, 88001, 88002, 88003, 88004, 88005, 88006, 88007}; return &v[k & 7]; }
  std::vector<Json> extdata_json;
  const Json *extdata_def(int k) { if (extdata_json.empty()) for (int i = 0; i < 8; i++) { Json d = Json::object(); d.set("name", prog::S("xd%d", i)); d.set("data", 1); d.set("val", 88000 + i); extdata_json.push_back(d); } return &extdata_json[k & 7]; }
  std::vector<Json> extdef_json;  // synthetic DSL twins
  const Json *extdef_def(int k) {
    if (extdef_json.empty()) for (int i = 0; i < 8; i++) { Json f = Json::object(); f.set("name", prog::S("x%d", i)); f.set("salt", 77000 + i); f.set("na", 1); f.set("nd", 0); f.set("fuel", 0); Json b = Json::array(), r = Json::array(); r.push("ret"); r.push("a0"); b.push(r); f.set("body", b); extdef_json.push_back(f); }
    return &extdef_json[k & 7];
  }
  // resolver call-back of MIR_link
  std::set<std::string> resolver_names; std::map<std::string, int> resolver_k; std::vector<std::string> resolver_asked;
  static void *resolver_c(const char *name) {
    LcSim *s = g_self; s->resolver_asked.push_back(name); s->C->count("resolver_consulted");
    if (!strcmp(name, "ext")) return s->ext_addr();
    if (!strcmp(name, "extn")) return (void *) extn_c;
    if (!strcmp(name, "extm")) return (void *) extm_c;
    if (!strcmp(name, "memset")) return (void *) memset;
    if (!strcmp(name, "memcpy")) return (void *) memcpy;
    if (!strcmp(name, "memmove")) return (void *) memmove;
    auto it = s->resolver_k.find(name); if (it == s->resolver_k.end()) return nullptr;
    if (it->second < 0) {  // the resolver itself creates and loads a module that defines the name, and answers with the function's address
      size_t mi = (size_t) (-it->second - 1); if (mi >= s->mods.size()) return nullptr;
      s->C->count("resolver_loaded_a_module");
      if (!s->mods[mi].created) { MIR_module_t before = DLIST_TAIL(MIR_module_t, *MIR_get_module_list(s->ctx)); std::string t = s->module_text(mi); MIR_scan_string(s->ctx, t.c_str()); MIR_module_t m = DLIST_TAIL(MIR_module_t, *MIR_get_module_list(s->ctx)); if (m == before) return nullptr; s->bind_items(mi, m); s->mods[mi].via = "scan"; }
      if (!s->mods[mi].loaded) { MIR_load_module(s->ctx, s->mods[mi].m); s->mods[mi].loaded = true; }
      Fn *f = s->find_fn(name, (int) mi); return f && f->item ? f->item->addr : nullptr;
    }
    return name[0] == 'd' ? (void *) extdata_addr(it->second) : extdef_addr(it->second);
  }

  // ------------------------------------------------------------------------------------------ run state
  struct Mod { bool created = false, loaded = false, linked = false; MIR_module_t m = nullptr; std::string via; int iface = -1; bool ambiguous = false; bool dc_resolver = false; };
  struct Fn { const Json *def = nullptr; int mod = -1; MIR_item_t item = nullptr; void *addr_seen = nullptr; void *gen_addr = nullptr; int generated = 0, interp_runs = 0, addr_calls = 0;  bool lazybb_entered = false; bool has_lt = false; int table_owner = 0 /* 0 none, 1 interp, 2 gen */; bool icode = false; };
  MIR_context_t ctx = nullptr; std::vector<Mod> mods; std::map<std::string, std::vector<Fn>> fns;  // name -> definitions (C13: several)
  std::map<std::string, FuncInfo> sigs; const Json *prog_json = nullptr;
  bool gen_on = false, c2m_on = false, ext_loaded = false; int opt_level = 2;
  // binding model (C13): name -> latest definition; (module index, name) -> bound definition
  struct Def { const Json *def = nullptr; bool external = false; int k = -1; int mod = -1; };
  std::map<std::string, Def> G; std::map<std::pair<int, std::string>, Def> bound; std::vector<int> pending;
  // what the implementation is known to do instead when a queued module is linked a second time (known finding): direct
  // calls of MIR functions were inlined by the first step and keep that definition; everything else is re-bound
  std::map<std::pair<int, std::string>, Def> bound_inlined; bool use_impl_bindings = false;
  // second known deviation: the interpreter re-reads the address of an imported item ("mov r, <import>") from the global
  // table when it first translates the function, i.e. it binds to the latest definition at first interpretation
  std::map<std::pair<int, std::string>, Def> bound_late;
  bool redef_allowed = false; std::set<std::string> ever_exported_fn;
  std::string mode; Fnv th; uint64_t nops_done = 0;
  typedef std::vector<uint8_t> Bytes_t;
  Bytes_t store; size_t store_pos = 0;
  static int st_writer(MIR_context_t, uint8_t b) { g_self->store.push_back(b); return b; }
  static int st_reader(MIR_context_t) { LcSim *s = g_self; if (s->store_pos >= s->store.size()) return EOF; return s->store[s->store_pos++]; }

  Fn *find_fn(const std::string &name, int mod = -1) { auto it = fns.find(name); if (it == fns.end()) return nullptr; for (auto &f : it->second) if (mod < 0 || f.mod == mod) return &f; return nullptr; }
  // latest *linked* definition of a name that has an item
  Fn *callable_fn(const std::string &name) { auto it = fns.find(name); if (it == fns.end()) return nullptr; Fn *best = nullptr; for (auto &f : it->second) if (f.item && mods[f.mod].linked) best = &f; return best; }

  static std::string item_text(MIR_context_t c, MIR_item_t it) { char *buf = nullptr; size_t len = 0; FILE *f = open_memstream(&buf, &len); MIR_output_item(c, f, it); fclose(f); std::string s(buf, len); free(buf); return s; }
  static std::string norm_labels(const std::string &s) {
    std::string r; std::map<std::string, int> ren; size_t i = 0;
    while (i < s.size()) {
      if (s[i] == 'L' && i + 1 < s.size() && isdigit((unsigned char) s[i + 1]) && (i == 0 || !(isalnum((unsigned char) s[i - 1]) || s[i - 1] == '_'))) {
        size_t j = i + 1; while (j < s.size() && isdigit((unsigned char) s[j])) j++;
        if (j < s.size() && (isalnum((unsigned char) s[j]) || s[j] == '_')) { r.append(s, i, j - i); i = j; continue; }
        std::string l = s.substr(i, j - i); auto it = ren.find(l); int n = it == ren.end() ? (ren[l] = (int) ren.size()) : it->second; r += "L#" + std::to_string(n); i = j;
      } else r += s[i++];
    }
    return r;
  }

  // ------------------------------------------------------------------------------------------ model plumbing
  prog::Model model;
  void setup_model() {
    model = prog::Model();
    model.module_of = [this](const Json *d) -> std::string { for (auto &kv : fns) for (auto &f : kv.second) if (f.def == d) return std::to_string(f.mod); return "-1"; };
    model.resolve = [this](const std::string &mod, const std::string &callee) -> const Json * {
      int mi = atoi(mod.c_str()); bool indirect = callee.size() > 2 && callee.compare(callee.size() - 2, 2, "#i") == 0;
      bool is_data = callee.size() > 2 && callee.compare(callee.size() - 2, 2, "#d") == 0;
      std::string name = indirect || is_data ? callee.substr(0, callee.size() - 2) : callee;
      if (mi >= 0 && is_data) {
        if (const Json *dj = prog_json->at("mods")[(size_t) mi].find("data")) for (auto &d : dj->a) if (d.gets("name") == name) return &d;
        if (use_impl_bindings) { auto il = bound_late.find({mi, name}); if (il != bound_late.end()) return il->second.def; }
        auto it = bound.find({mi, name}); return it != bound.end() ? it->second.def : nullptr;
      }
      if (mi >= 0) {
        Fn *own = find_fn(name, mi); if (own) return own->def;
        if (use_impl_bindings && !indirect) { auto ii = bound_inlined.find({mi, name}); if (ii != bound_inlined.end()) return ii->second.def; }
        auto it = bound.find({mi, name}); if (it != bound.end()) return it->second.def;
      }
      return nullptr;
    };
    model.ext = [this](int64_t tag, int64_t v, prog::Model &m) -> int64_t {
      auto it = reenter_name.find(tag);
      if (it != reenter_name.end() && mdepth < 3) { Fn *f = callable_fn(it->second); if (f && f->item) { mdepth++; std::vector<int64_t> a = {1, v}; int64_t r = m.call(*f->def, a) + 1; mdepth--; return r; } }
      return (int64_t) ((uint64_t) v * 3 + (uint64_t) tag);
    };
  }
  std::map<int64_t, std::string> reenter_name; int mdepth = 0;

  // ------------------------------------------------------------------------------------------ context lifecycle
  void ctx_open(const Json &kn) {
    A.reset(); K.reset();
    const Json &al = kn.at("alloc");
    A.realloc_mode = (int) al.geti("realloc", 0); A.junk = (uint8_t) al.geti("junk", 0xA5); A.gap = (size_t) std::max<int64_t>(16, al.geti("gap", 16));
    A2.realloc_mode = A.realloc_mode; A2.junk = A.junk; A2.gap = A.gap;
    K.policy = (int) kn.geti("placement", P_PACKED_FAR); K2.policy = P_PACKED_FAR; K.spread_gap = (uint64_t) kn.geti("placement_gap", 1ll << 32);
    if (int pi = (int) kn.geti("prelude", 0)) {
      // an earlier context of this process: created, used (one tiny module, linked with interface pi, called once) and finished
      // before the context of the history exists.  Whatever it leaves behind in the process is part of the history.
      A2.reset(); K2.reset(); phase("prelude MIR_init2");
      MIR_context_t h = MIR_init2(A2.alloc(), K2.alloc()); MIR_set_error_func(h, err_func);
      if (pi >= 2) { MIR_gen_init(h); }
      MIR_scan_string(h, "mp: module\n export pf\npf: func i64, i64:a\n local i64:r\n add r, a, 1\n ret r\n endfunc\n endmodule\n");
      MIR_module_t pm = DLIST_TAIL(MIR_module_t, *MIR_get_module_list(h)); MIR_load_module(h, pm);
      phase("prelude MIR_link"); MIR_link(h, pi == 1 ? MIR_set_interp_interface : pi == 2 ? MIR_set_gen_interface : pi == 3 ? MIR_set_lazy_gen_interface : MIR_set_lazy_bb_gen_interface, nullptr);
      MIR_item_t pf = DLIST_TAIL(MIR_item_t, pm->items); phase("prelude call");
      if (pf && pf->item_type == MIR_func_item && pf->addr && ((int64_t (*)(int64_t)) pf->addr)(41) != 42) { /* reported through the history's own oracles if it matters */ }
      if (pi >= 2) MIR_gen_finish(h);
      phase("prelude MIR_finish"); MIR_finish(h); A2.audit(true); K2.audit(true); C->count("prelude_context_lived_before");
    }
    phase("MIR_init2");
    ctx = MIR_init2(A.alloc(), K.alloc()); user_ctx_alive = true;
    MIR_set_error_func(ctx, err_func);
  }
  void abandon() { ctx = nullptr; user_ctx_alive = false; A.reset(); K.reset(); A2.reset(); K2.reset(); }

  // ------------------------------------------------------------------------------------------ execution
  Outcome execute(const Json &plan, RunCtx &rc) override {
    Outcome out; cur_out = &out; C = &rc; g_self = this; th = Fnv(); clock_ticks = 0; nops_done = 0;
    const Json &kn = plan.at("knobs"); mode = kn.gets("mode", "C17");
    prog_json = &plan.at("prog"); sigs = prog::signatures(*prog_json);
    if (mode == "C13") for (const char *nm : {"f", "g", "h"}) if (!sigs.count(nm)) { FuncInfo fi; fi.name = nm; fi.na = 1; fi.ps = "q"; sigs[nm] = fi; }  // names that only externals define
    mods.assign(prog_json->at("mods").size(), Mod()); fns.clear(); G.clear(); bound.clear(); bound_inlined.clear(); bound_late.clear(); use_impl_bindings = false; pending.clear(); foreign.clear(); ext_log.clear(); reenter_addr.clear(); reenter_name.clear(); resolver_k.clear(); resolver_asked.clear();
    gen_on = c2m_on = ext_loaded = false; opt_level = 2; redef_allowed = false; expect_error = alt_error = -1; open_mod = nullptr; n_open = 0; ever_exported_fn.clear(); ext_depth = 0; mdepth = 0; store.clear();
    for (size_t mi = 0; mi < prog_json->at("mods").size(); mi++) for (auto &f : prog_json->at("mods")[mi].at("funcs").a) { Fn fn; fn.def = &f; fn.mod = (int) mi; prog::walk(f.at("body"), [&](const Json &st) { if (st[0].s == "lt" || st[0].s == "ld") fn.has_lt = true; }); fns[f.gets("name")].push_back(fn); }
    if (auto re = kn.find("reenter")) for (auto &p : re->o) reenter_name[atoll(p.first.c_str())] = p.second.s;
    if (auto rs = kn.find("resolver")) for (auto &p : rs->o) resolver_k[p.first] = (int) p.second.num();
    setup_model();
    ctx_open(kn);
    bool finished = false;
    if (const char *df = getenv("LCSIM_ALLOC_DUMP")) { static int nrun = 0; char fn[300]; snprintf(fn, sizeof fn, "%s.%d", df, nrun++); if (A.dump) fclose(A.dump); A.dump = fopen(fn, "w"); }
    if (setjmp(err_jmp) == 0) {
      for (auto &op : plan.at("ops").a) {
        if (out.violation) break;
        if (op.k != Json::Arr || op.size() == 0 || !ctx) continue;
        g_opno = (int) (&op - &plan.at("ops").a[0]);
        exec_op(op, out);
        nops_done++;
        ledger_check(out);
      }
      if (!out.violation && ctx) { do_finish(out); finished = true; }
    } else {
      // error call-back = crash point of the history
      rc.count("error_callbacks");
      on_error(out);
      abandon();
    }
    if (!finished && ctx) abandon();
    user_ctx_alive = false;
    out.ticks = A.events + K.events + clock_ticks + nops_done;
    out.trace_hash = mix2(A.trace.h, mix2(K.policy == P_KERNEL ? 0 : K.trace.h, th.h));
    if (getenv("LCSIM_ALLOC_DUMP")) fprintf(stderr, "trace parts: alloc %016llx code %016llx harness %016llx\n", (unsigned long long) A.trace.h, (unsigned long long) K.trace.h, (unsigned long long) th.h);
    rc.count("alloc_events", A.events); rc.count("code_alloc_events", K.events);
    rc.count("realloc_moved_live_block", A.n_realloc_live_moved); rc.count("code_multi_page_write_windows", K.multi_page_windows);
    if (out.violation) rc.count("violations");
    out.nontrivial = nops_done >= 3 && (A.n_realloc_live_moved > 0 || K.n_protect_w > 0);
    return out;
  }

  MIR_module_t open_mod = nullptr; int n_open = 0;
  int expect_error = -1, alt_error = -1; std::string expect_error_why;  // set by the history model before an op that must fail (C13)
  void on_error(Outcome &out) {
    if (expect_error >= 0) {
      if (err_code == alt_error) C->count("dont_care_error");  /* the don't-care load inside this link step may report its own error first */
      else if (err_code != expect_error) out.fail("link_wrong_error", std::to_string(expect_error), fmt("expected error %d (%s) but the error call-back received %d: %s (during %s)", expect_error, expect_error_why.c_str(), err_code, err_msg, g_phase));
      else C->count("expected_error_reported");
      expect_error = alt_error = -1; return;
    }
    alt_error = -1;
    if (expect_error == -2) { expect_error = -1; C->count("dont_care_error"); return; }
    out.fail("unexpected_error", fmt("err%d", err_code), fmt("error call-back (%d: %s) during %s of an error-free history", err_code, err_msg, g_phase));
  }

  void ledger_check(Outcome &out) {
    if (A.bad) out.fail(A.cls, A.sig, A.detail + fmt(" (during %s)", g_phase));
    if (A2.bad) out.fail(A2.cls, A2.sig, A2.detail + fmt(" (helper context, during %s)", g_phase));
    if (K.bad) out.fail(K.cls, K.sig, K.detail + fmt(" (during %s)", g_phase));
    if (K2.bad) out.fail(K2.cls, K2.sig, K2.detail + fmt(" (helper context, during %s)", g_phase));
    if (!foreign.empty()) {
      // L5: library code called libc allocation functions although the context has user allocators
      auto &f = *foreign.begin(); size_t at = f.first.find('@');
      std::string what = f.first.substr(0, at), fn = f.first.substr(at + 1);
      std::string all; for (auto &p : foreign) all += p.first + "x" + std::to_string(p.second) + " ";
      out.fail("libc_alloc_from_library", what + "@" + fn, "library code calls libc " + what + " from " + fn + " while the context was created with user allocators [" + all + "] (during " + g_phase + ")");
    }
  }

  void close_open_mod() {
    if (!open_mod) return;
    phase("MIR_new_proto + MIR_finish_module of the open module"); MIR_type_t rt = MIR_T_I64; MIR_var_t v; v.type = MIR_T_I64; v.name = "a";
    MIR_new_proto_arr(ctx, "p_open", 1, &rt, 1, &v); MIR_new_import(ctx, "ext"); MIR_finish_module(ctx); open_mod = nullptr;
  }
  void do_finish(Outcome &out) {
    close_open_mod();
    if (gen_on) { phase("MIR_gen_finish"); MIR_gen_finish(ctx); gen_on = false; }
    if (c2m_on) { phase("c2mir_finish"); c2mir_finish(ctx); c2m_on = false; }
    phase("MIR_finish"); MIR_finish(ctx); ctx = nullptr;
    ledger_check(out);
    A.audit(true); K.audit(true);
    ledger_check(out);
    C->count("contexts_finished");
  }

  std::string module_text(size_t mi) { prog::MirEmitter e; return e.module(prog_json->at("mods")[mi], sigs); }
  std::string module_c(size_t mi) { prog::CEmitter e; return e.module(prog_json->at("mods")[mi], sigs); }
  void bind_items(size_t mi, MIR_module_t m) {
    mods[mi].m = m; mods[mi].created = true;
    for (MIR_item_t it = DLIST_HEAD(MIR_item_t, m->items); it; it = DLIST_NEXT(MIR_item_t, it))
      if (it->item_type == MIR_func_item) { Fn *f = find_fn(it->u.func->name, (int) mi); if (f) f->item = it; }
  }
  struct CSrc { const std::string *s; size_t pos; };
  static int c_getc(void *d) { CSrc *c = (CSrc *) d; return c->pos < c->s->size() ? (unsigned char) (*c->s)[c->pos++] : EOF; }
  static bool uses(const Json &m, const char *kind) { bool u = false; for (auto &f : m.at("funcs").a) prog::walk(f.at("body"), [&](const Json &st) { if (st[0].s == kind) u = true; }); return u; }

  void exec_op(const Json &op, Outcome &out) {
    const std::string &o = op[0].s; size_t nm = mods.size();
    auto argi = [&](size_t i) -> int64_t { return i < op.size() ? op[i].num() : 0; };
    if (o == "scan" || o == "c2m" || o == "bin" || o == "out" || o == "outitem" || o == "write") close_open_mod();  // these create modules or walk all of them
    if (o == "scan" || o == "c2m" || o == "bin") {
      if (nm == 0) return; size_t mi = (size_t) argi(1) % nm; if (mods[mi].created) return;
      MIR_module_t before = DLIST_TAIL(MIR_module_t, *MIR_get_module_list(ctx));
      if (o == "scan") { phase("MIR_scan_string", "module " + std::to_string(mi)); std::string t = module_text(mi); if (getenv("LCSIM_DUMP")) fprintf(stderr, "%s\n", t.c_str()); MIR_scan_string(ctx, t.c_str()); mods[mi].via = "scan"; C->count("module_via_scan"); }
      else if (o == "c2m" && (uses(prog_json->at("mods")[mi], "extn") || prog::prog_has_two_results(*prog_json))) return;  // (nor for functions with two results)  // no C form for the many-argument external: created by the fallback scan
      else if (o == "c2m") {
        if (!c2m_on) { phase("c2mir_init"); c2mir_init(ctx); c2m_on = true; }
        std::string src = module_c(mi); CSrc cs{&src, 0}; struct c2mir_options opts; memset(&opts, 0, sizeof opts);
        FILE *msg = fopen("/dev/null", "w"); opts.message_file = msg; opts.module_num = mi;
        phase("c2mir_compile", "module " + std::to_string(mi));
        int ok = c2mir_compile(ctx, &opts, c_getc, &cs, "sim.c", nullptr); fclose(msg);
        if (!ok) { out.fail("harness_c_emitter", "c2mir_compile", "c2mir rejected the generated C for module " + std::to_string(mi)); return; }
        mods[mi].via = "c2m"; C->count("module_via_c2mir"); if (prog_json->at("mods")[mi].geti("cmacros")) C->count("c2mir_with_macros_and_conditionals"); if (prog_json->at("mods")[mi].geti("cdecls")) C->count("c2mir_with_declaration_traffic");
      } else {
        if (uses(prog_json->at("mods")[mi], "lt") || uses(prog_json->at("mods")[mi], "ld")) return;
        { bool gv = false; for (auto &f : prog_json->at("mods")[mi].at("funcs").a) if (f.geti("gv")) gv = true; if (gv) return; }  // nor functions with hard-register global variables (reader fails: outside the claimed properties)  // binary MIR cannot carry lref items (known limitation outside the claimed properties)
        // helper context: scan -> write -> finish (its own ledger), then read into the main context
        A2.reset(); K2.reset();
        phase("helper MIR_init2"); MIR_context_t h = MIR_init2(A2.alloc(), K2.alloc()); MIR_set_error_func(h, err_func);
        std::string t = module_text(mi); phase("helper MIR_scan_string"); MIR_scan_string(h, t.c_str());
        store.clear(); phase("helper MIR_write"); MIR_write_with_func(h, st_writer);
        phase("helper MIR_finish"); MIR_finish(h); A2.audit(true); K2.audit(true);
        store_pos = 0; phase("MIR_read", "module " + std::to_string(mi)); MIR_read_with_func(ctx, st_reader);
        mods[mi].via = "bin"; C->count("module_via_binary_read");
      }
      MIR_module_t m = DLIST_TAIL(MIR_module_t, *MIR_get_module_list(ctx));
      if (m == nullptr || m == before) { out.fail("harness", "module_not_created", "no module appeared after " + o); return; }
      bind_items(mi, m);
      th.str(o.c_str()); th.u64(mi);
    } else if (o == "load") {
      if (nm == 0) return; size_t mi = (size_t) argi(1) % nm; if (!mods[mi].created || mods[mi].loaded) return;
      model_load(mi);
      phase("MIR_load_module", std::to_string(mi)); MIR_load_module(ctx, mods[mi].m); mods[mi].loaded = true; pending.push_back((int) mi);
      if (expect_error != -1) { if (expect_error >= 0) out.fail("link_missing_error", std::to_string(expect_error), "MIR_load_module succeeded but the model expects error: " + expect_error_why); expect_error = -1; }
    } else if (o == "ldext") {
      std::string name = op.size() > 1 && op[1].k == Json::Str ? op[1].s : "f"; int k = (int) argi(2) & 7;
      bool isd = name[0] == 'd';
      phase("MIR_load_external", name); MIR_load_external(ctx, name.c_str(), isd ? (void *) extdata_addr(k) : extdef_addr(k));
      { auto it = G.find(name); if (it != G.end()) C->count(it->second.external ? "c13_external_over_external" : "c13_external_over_export"); }
      Def d; d.def = isd ? extdata_def(k) : extdef_def(k); d.external = true; d.k = k; G[name] = d; C->count("load_external");
    } else if (o == "openmod") {  // the user starts building another module through the API and goes on using the context
      if (!open_mod) { phase("MIR_new_module"); open_mod = MIR_new_module(ctx, fmt("open%d", ++n_open).c_str()); C->count("module_left_open_during_other_work"); }
    } else if (o == "closemod") { close_open_mod();
    } else if (o == "redef") { redef_allowed = argi(1) != 0; MIR_set_func_redef_permission(ctx, redef_allowed ? 1 : 0); }
    else if (o == "geninit") { if (gen_on) return; phase("MIR_gen_init"); MIR_gen_init(ctx); gen_on = true; MIR_gen_set_optimize_level(ctx, (unsigned) opt_level); }
    else if (o == "genfinish") { if (!gen_on || lazy_pending()) return; phase("MIR_gen_finish"); MIR_gen_finish(ctx); gen_on = false; }
    else if (o == "opt") { opt_level = (int) (argi(1) & 3); if (gen_on) MIR_gen_set_optimize_level(ctx, (unsigned) opt_level); C->count(fmt("opt_level_%d", opt_level).c_str()); }
    else if (o == "link") do_link(op, out);
    else if (o == "gen") do_gen(op, out);
    else if (o == "call" || o == "interp") do_call(op, out, o == "interp");
    else if ((o == "out" || o == "outitem" || o == "write") && any_lazy_bb()) { /* the lazy basic-block generator keeps functions in generator form: their MIR can no longer be printed or written (outside every claimed statement) */ }
    else if (o == "out") { phase("MIR_output"); char *b = nullptr; size_t l = 0; FILE *f = open_memstream(&b, &l); MIR_output(ctx, f); fclose(f); th.u64(l); free(b); C->count("text_output"); }
    else if (o == "outitem") { std::string n = op.size() > 1 ? op[1].s : ""; Fn *f = find_fn(n); if (f && f->item) { phase("MIR_output_item", n); std::string t = item_text(ctx, f->item); th.u64(t.size()); C->count("item_output"); } }
    else if (o == "write") { phase("MIR_write"); store.clear(); MIR_write_with_func(ctx, st_writer); th.u64(store.size()); if (getenv("LCSIM_ALLOC_DUMP")) { fprintf(stderr, "write size %zu\n", store.size()); static int nw = 0; char fn[64]; snprintf(fn, sizeof fn, "/tmp/wr.%d", nw++); FILE *wf = fopen(fn, "wb"); fwrite(store.data(), 1, store.size(), wf); fclose(wf); } C->count("binary_write"); }
  }
  // lazily generated code may call MIR_gen machinery later: never finish the generator while thunks still point at wrappers
  bool any_lazy_bb() { for (auto &m : mods) if (m.linked && m.iface == 4) return true; return false; }
  bool lazy_pending() { for (auto &m : mods) if (m.linked && (m.iface == 3 || m.iface == 4 || m.iface == 2)) return true; return false; }

  // ---- binding model
  void model_load(size_t mi) {
    expect_error = -1;
    if (const Json *dj = prog_json->at("mods")[mi].find("data")) for (auto &d : dj->a) if (d.geti("exp", 1)) {  // data redefinition is never an error
      auto it = G.find(d.gets("name")); if (it != G.end()) C->count("c13_data_redefined");
      Def dd; dd.def = &d; dd.mod = (int) mi; G[d.gets("name")] = dd;
    }
    for (auto &f : prog_json->at("mods")[mi].at("funcs").a) {
      if (!f.geti("exp", 1)) continue; std::string n = f.gets("name");
      auto it = G.find(n);
      // a second exported *function* of a name is rejected without permission, also when an external was registered in between;
      // only "first exported function after an external" is the declared don't-care
      if (it != G.end() && ever_exported_fn.count(n) && it->second.def != &f && !redef_allowed) { expect_error = MIR_repeated_decl_error; expect_error_why = "second exported function " + n + " loaded without redefinition permission"; return; }
      if (it != G.end() && it->second.external && !ever_exported_fn.count(n) && !redef_allowed) { expect_error = -2; /* don't care: the statement is silent on a first export loaded after an external of the same name */ }
      ever_exported_fn.insert(n);
      if (it != G.end()) C->count(it->second.external ? "c13_export_over_external" : "c13_export_over_export");
      Def d; d.def = &f; d.mod = (int) mi; G[n] = d;
    }
  }
  std::set<std::string> imports_of(size_t mi) {
    std::set<std::string> def, imp; const Json &m = prog_json->at("mods")[mi];
    for (auto &f : m.at("funcs").a) def.insert(f.gets("name"));
    if (const Json *dj = m.find("data")) for (auto &d : dj->a) def.insert(d.gets("name"));
    for (auto &f : m.at("funcs").a) prog::walk(f.at("body"), [&](const Json &st) { if ((st[0].s == "call" || st[0].s == "icall" || st[0].s == "fcmp" || st[0].s == "ldata") && !def.count(st[2].s)) imp.insert(st[2].s); });
    return imp;
  }
  void do_link(const Json &op, Outcome &out) {
    int iface = (int) (op.size() > 1 ? op[1].num() : 1) % 5; bool use_resolver = op.size() > 2 && op[2].num() != 0;
    if ((iface >= 2) && !gen_on) { phase("MIR_gen_init"); MIR_gen_init(ctx); gen_on = true; MIR_gen_set_optimize_level(ctx, (unsigned) opt_level); }
    if (!ext_loaded && !use_resolver && mode != "C13") { MIR_load_external(ctx, "ext", ext_addr()); MIR_load_external(ctx, "extn", (void *) extn_c); MIR_load_external(ctx, "extm", (void *) extm_c); MIR_load_external(ctx, "memset", (void *) memset); MIR_load_external(ctx, "memcpy", (void *) memcpy); MIR_load_external(ctx, "memmove", (void *) memmove); ext_loaded = true; }
    // model: bind every import of every pending module
    expect_error = -1; std::vector<std::pair<int, std::string>> newly; std::vector<int> sim_loaded; bool dontcare = false;
    for (size_t pi = 0; pi < pending.size() && expect_error < 0; pi++) { int mi = pending[pi]; for (auto &n : imports_of((size_t) mi)) {
      if (expect_error >= 0) break;
      auto it = G.find(n);
      if (it != G.end()) {
        // A module that stayed queued after a link without interface is linked a second time.  Calls the first step has
        // already inlined keep the old definition, the others are re-bound: the statement does not say which it should be,
        // so a changed binding on re-link makes the module's observations a declared don't-care.
        auto old = bound.find({mi, n});
        if (old != bound.end() && old->second.def != it->second.def) {
          mods[mi].ambiguous = true; C->count("relink_with_changed_binding");
          if (!old->second.external && !bound_inlined.count({mi, n})) bound_inlined[{mi, n}] = old->second;  // a direct call of it was inlined by the first link
        }
        bound[{mi, n}] = it->second; newly.push_back({mi, n}); continue;
      }
      auto rk = resolver_k.find(n);
      if (use_resolver && rk != resolver_k.end() && rk->second < 0) {  // the resolver loads module L and answers with L's function: MIR registers that address as an external
        size_t L = (size_t) (-rk->second - 1); Fn *lf = L < mods.size() ? find_fn(n, (int) L) : nullptr;
        if (lf) {
          bool was_loaded = mods[L].loaded || std::find(sim_loaded.begin(), sim_loaded.end(), (int) L) != sim_loaded.end();
          if (!was_loaded) {
            // declared don't-care: the module the resolver loads *during* the step redefines a name that an import of this same
            // step was already bound to (inlined calls follow the table entry as it is at inlining time, the others keep the address)
            for (auto &lf2 : prog_json->at("mods")[L].at("funcs").a) for (auto &nb : newly) if (nb.second == lf2.gets("name")) { mods[(size_t) nb.first].dc_resolver = true; C->count("dont_care_resolver_redefines_name_bound_in_same_step"); }
            model_load(L); sim_loaded.push_back((int) L); if (expect_error >= 0) break; if (expect_error == -2) dontcare = true; expect_error = -1; pending.push_back((int) L); }
          Def d; d.def = lf->def; d.external = true; d.mod = (int) L; G[n] = d; bound[{mi, n}] = d; continue;
        }
      }
      if (use_resolver && rk != resolver_k.end() && rk->second >= 0) { Def d; d.def = n[0] == 'd' ? extdata_def(rk->second) : extdef_def(rk->second); d.external = true; d.k = rk->second; G[n] = d; bound[{mi, n}] = d; continue; }
      if (expect_error < 0) { expect_error = MIR_undeclared_op_ref_error; expect_error_why = "import of undefined " + n + " in module " + std::to_string(mi); }
    } }
    if (expect_error < 0 && dontcare) expect_error = -2;
    alt_error = dontcare ? (int) MIR_repeated_decl_error : -1;
    for (int mi : pending) for (auto &fj : prog_json->at("mods")[(size_t) mi].at("funcs").a) {
      bool bad = false; std::string who;
      prog::walk(fj.at("body"), [&](const Json &st) { if (st[0].s == "call") { Fn *g = callable_fn(st[2].s); if (g && mods[g->mod].iface == 4 && g->lazybb_entered) { bad = true; who = st[2].s; } } });
      if (bad) { out.fail("lazybb_consumed_mir_used_by_later_link", "inline", "module " + std::to_string(mi) + " is linked after function " + who + " has been entered under the lazy basic-block interface: the generator left " + who + "'s MIR in its own form, and inlining it now copies that form"); return; }
    }
    void (*setif)(MIR_context_t, MIR_item_t) = iface == 0 ? nullptr : iface == 1 ? MIR_set_interp_interface : iface == 2 ? MIR_set_gen_interface : iface == 3 ? MIR_set_lazy_gen_interface : MIR_set_lazy_bb_gen_interface;
    phase("MIR_link", fmt("iface=%d resolver=%d pending=%zu", iface, (int) use_resolver, pending.size()));
    if (pending.size() >= 3) C->count("link_with_3_pending_modules");
    static const char *ifn[] = {"link_iface_none", "link_iface_interp", "link_iface_gen", "link_iface_lazy", "link_iface_lazy_bb"}; C->count(ifn[iface]);
    MIR_link(ctx, setif, use_resolver ? resolver_c : nullptr);
    alt_error = -1;
    if (expect_error >= 0) { out.fail("link_missing_error", std::to_string(expect_error), "MIR_link succeeded but the model expects an error: " + expect_error_why); expect_error = -1; return; }
    expect_error = -1;
    for (int mi : pending) { mods[mi].linked = true; mods[mi].iface = iface; }
    for (auto &kv : fns) for (auto &f : kv.second) for (int mi : pending) if (f.mod == mi) { f.icode = false; if (iface == 2) { f.table_owner = 2; f.generated = 1; } }
    if (iface != 0) pending.clear();  // MIR_link without an interface leaves the modules queued: they are linked (and re-bound) again by the next step
    else C->count("link_without_interface_keeps_modules_pending");
    C->count("link_steps");
    // public addresses and reference texts
    for (auto &kv : fns) for (auto &f : kv.second) if (f.item && mods[f.mod].linked) {
      if (f.addr_seen == nullptr && mods[f.mod].iface != 0) f.addr_seen = f.item->addr;
    }
    for (auto &p : reenter_name) { Fn *f = callable_fn(p.second); if (f && f->item && mods[f->mod].iface != 0) reenter_addr[p.first] = f->item->addr; }
    th.str("link"); th.u64((uint64_t) iface);
  }

  // T1: the MIR of a function as seen through the API (MIR_output_item) is the same before and after an event
  // function item text plus the lref/ref data items of its module (their labels are rewired by duplicate/restore too)
  std::string snap_text(Fn &f) {
    std::string t = item_text(ctx, f.item);
    for (MIR_item_t it = DLIST_HEAD(MIR_item_t, mods[f.mod].m->items); it; it = DLIST_NEXT(MIR_item_t, it))
      if (it->item_type == MIR_lref_data_item) t += item_text(ctx, it);
    return norm_labels(t);
  }
  void check_text(Fn &f, const std::string &before, Outcome &out, const char *when) {
    std::string t = snap_text(f);
    if (t != before) {
      size_t k = 0; while (k < t.size() && k < before.size() && t[k] == before[k]) k++;
      size_t ls = k == 0 ? std::string::npos : before.rfind('\n', k - 1); ls = ls == std::string::npos ? 0 : ls + 1; size_t le = before.find('\n', ls); size_t ls2 = std::min(ls, t.size()), le2 = t.find('\n', ls2);
      if (getenv("LCSIM_DUMP")) fprintf(stderr, "---- before:\n%s\n---- after:\n%s\n", before.c_str(), t.c_str());
      out.fail("mir_text_changed", when, fmt("MIR_output_item text of function %s differs before and %s: was '%s' now '%s'", f.def->gets("name").c_str(), when, before.substr(ls, le == std::string::npos ? std::string::npos : le - ls).c_str(), t.substr(ls2, le2 == std::string::npos ? std::string::npos : le2 - ls2).c_str()));
    } else C->count("text_compared_equal");
  }

  void do_gen(const Json &op, Outcome &out) {
    std::string n = op.size() > 1 && op[1].k == Json::Str ? op[1].s : ""; Fn *f = callable_fn(n);
    if (!f || !f->item || mods[f->mod].iface == 0) return;
    if (mods[f->mod].iface == 4) return;                     // explicit whole-function generation of a lazy-bb function: not mixed here
    if (!allow_interp_then_gen && f->interp_runs > 0 && f->generated == 0) return;  // MIR_interp(f) then generation of f: C03's finding
    if (!gen_on) { phase("MIR_gen_init"); MIR_gen_init(ctx); gen_on = true; MIR_gen_set_optimize_level(ctx, (unsigned) opt_level); }
    phase("MIR_gen", n);
    std::string before = snap_text(*f);
    void *a = MIR_gen(ctx, f->item); C->count(f->generated ? "gen_repeated" : "gen_explicit"); if (!f->generated) f->table_owner = 2; f->generated++;
    if (f->gen_addr && f->gen_addr != a) out.fail("gen_address_changed", "MIR_gen", fmt("repeated MIR_gen(%s) returned %p, earlier %p", n.c_str(), a, f->gen_addr));
    f->gen_addr = a;
    if (a != f->item->addr) out.fail("gen_address_changed", "item_addr", fmt("MIR_gen(%s) returned %p but the item's public address is %p", n.c_str(), a, f->item->addr));
    if (f->addr_seen && f->addr_seen != f->item->addr) out.fail("public_address_changed", "gen", fmt("public address of %s changed from %p to %p", n.c_str(), f->addr_seen, f->item->addr));
    if (mode == "C16" || mods[f->mod].iface != 4) check_text(*f, before, out, "after MIR_gen");
    th.str("gen"); th.str(n.c_str());
  }
  std::string first_log_diff() { size_t i = 0; while (i < ext_log.size() && i < model.log.size() && ext_log[i] == model.log[i]) i++; std::string r = fmt("; first difference at call %zu:", i); if (i < ext_log.size()) r += fmt(" got ext(%lld,%lld)", (long long) ext_log[i].tag, (long long) ext_log[i].v); if (i < model.log.size()) r += fmt(" model ext(%lld,%lld)", (long long) model.log[i].tag, (long long) model.log[i].v); return r; }
  bool allow_interp_then_gen = true, allow_lazybb_then_interp = true;

  void do_call(const Json &op, Outcome &out, bool interp) {
    std::string n = op.size() > 1 && op[1].k == Json::Str ? op[1].s : ""; Fn *f = callable_fn(n);
    if (!f || !f->item) return;
    int iface = mods[f->mod].iface;
    if (iface == 0) return;
    if (mode == "C13") for (auto &b : bound) if (b.first.first == f->mod) { auto g = G.find(b.first.second); if (g != G.end() && g->second.def != b.second.def) { C->count("c13_observe_old_binding_after_redefinition"); break; } }  // linked without an interface: not executable (calls would reach MIR's undefined_interface abort)
    if (interp && !allow_lazybb_then_interp && iface == 4) return;   // lazy-bb function given to MIR_interp: C03's second finding
    if (!interp && !allow_interp_then_gen && iface == 3 && f->interp_runs > 0 && f->generated == 0) return;  // lazy generation after interpretation
    const Json &def = *f->def; int na = (int) def.geti("na"), nd = (int) def.geti("nd");
    std::vector<int64_t> args; for (int i = 0; i < na; i++) { int64_t v = op.size() > 2 && (size_t) i < op[2].size() ? op[2][(size_t) i].num() : i * 1001 + 1; if (i == 0 && def.geti("fuel")) v = ((uint64_t) v % 4); args.push_back(v); }
    // model first (it never crashes)
    model.log.clear(); model.entered.clear(); model.steps = 0; model.overrun = false; model.depth = 0; mdepth = 0;
    int64_t want = model.call(def, args);
    if (model.overrun) { C->count("model_overrun_skipped"); return; }
    // Known finding (C03/C16): the label-address table of an lref item is one memory location that the interpreter fills
    // with addresses of its own code and the generator with machine addresses; whichever engine set it up last wins.
    // Predict (from the model's call chain) whether an lref function would run under the engine that does not own its table.
    for (size_t ei = 0; ei < model.entered.size(); ei++) {
      Fn *g = nullptr; for (auto &kv : fns) for (auto &x : kv.second) if (x.def == model.entered[ei]) g = &x;
      if (!g) continue;
      int gi = mods[g->mod].iface; bool by_interp = (ei == 0 && interp) || (gi == 1 && g->gen_addr == nullptr);  // explicit MIR_gen redirects the thunk of an interp-interface function too
      if (gi == 4) {  // lazy-bb stubs and the interpreter's descriptor share func_item->data
        if (by_interp) g->interp_runs++; else g->lazybb_entered = true;
        if (g->lazybb_entered && (g->interp_runs > 0 || (ei == 0 && interp))) {
          out.fail("lazybb_and_interp_share_item_data", by_interp ? "interp_after_lazybb" : "lazybb_after_interp", fmt("function %s is linked with the lazy basic-block interface and is both entered through its address and given to MIR_interp: its bb-stub array and the interpreter's descriptor use the same func_item->data slot", g->def->gets("name").c_str()));
          return;
        }
      }
      if (by_interp && !g->icode) prog::walk(g->def->at("body"), [&](const Json &st) { if (st[0].s == "ldata") { auto gi2 = G.find(st[2].s); if (gi2 != G.end() && bound.count({g->mod, st[2].s})) bound_late[{g->mod, st[2].s}] = gi2->second; } });
      if (!g->has_lt) { if (by_interp) g->icode = true; else if (!g->generated && (gi == 3 || gi == 4)) g->generated = 1; continue; }
      if (by_interp) { if (!g->icode) { g->icode = true; g->table_owner = 1; } }
      else if (!g->generated && (gi == 3 || gi == 4)) { g->generated = 1; g->table_owner = 2; }
      if (g->table_owner != (by_interp ? 1 : 2)) {
        out.fail("lref_table_shared_between_engines", by_interp ? "interp_after_gen" : "gen_after_interp", fmt("function %s has an lref label table last set up by the %s and is now executed by the %s (%s %s): the table holds the other engine's addresses", g->def->gets("name").c_str(), g->table_owner == 1 ? "interpreter" : "generator", by_interp ? "interpreter" : "generated code", interp ? "MIR_interp" : "call of", n.c_str()));
        return;
      }
    }
    // snapshot the text of every function this execution will enter (lazy generation or interpretation may happen inside)
    std::vector<std::pair<Fn *, std::string>> snaps;
    if (mode == "C16") {  // whole-function generation only: the lazy basic-block generator legitimately keeps working on the function's insns
      std::set<const Json *> seen;
      for (auto d : model.entered) if (seen.insert(d).second && seen.size() <= 6) for (auto &kv : fns) for (auto &x : kv.second) if (x.def == d && x.item) snaps.push_back({&x, snap_text(x)});
    }
    ext_log.clear(); ext_depth = 0; int64_t got, second = 0; bool have_second = false;
    phase(interp ? "MIR_interp" : "call through address", n + fmt(" (iface %d, opt %d)", iface, opt_level));
    std::string ps = prog::ps_of(def); char rt = prog::rt_of(def); bool typed = def.has("ps") || def.has("rt");
    if (typed) C->count("typed_signature_entered");
    for (auto d : model.entered) { std::string q = prog::ps_of(*d); int ni = 0, nf = 0, words = 0; for (char c : q) { if (c == 'l') { if (words & 1) { C->count("ld_stack_arg_after_odd_words_entered"); break; } words += 2; } else if (prog::int_kind(c)) { if (++ni > 6) words++; } else if (++nf > 8) words++; } }
    if (interp) {
      MIR_val_t resv[2], vals[80]; memset(vals, 0, sizeof vals); memset(resv, 0, sizeof resv); MIR_val_t &res = resv[0];
      uint64_t blkmem[8][4]; int nb = 0;
      { int ai = 0, di = 0, k = 0; for (char c : ps) { if (const prog::BlkInfo *bi = prog::blk_info(c)) { int64_t v = args[(size_t) ai++]; for (int j = 0; bi->fields[j]; j++) { uint64_t raw = prog::blk_field(bi->fields[j], v, j); if (bi->fields[j] == 'q') blkmem[nb][j] = raw; else { double x = (double) raw; memcpy(&blkmem[nb][j], &x, 8); } } vals[k++].a = blkmem[nb++]; C->count("block_argument_entered"); }
        else if (prog::int_kind(c)) vals[k++].i = args[(size_t) ai++]; else if (c == 'd') vals[k++].d = 2.0 + di++; else if (c == 'f') vals[k++].f = 2.0f + (float) di++; else vals[k++].ld = 2.0L + di++; } }
      if (!(op.size() > 3 && op[3].num() != 0)) MIR_interp_arr(ctx, f->item, resv, (size_t) (na + nd), vals);
      else { C->count("interp_variadic_entry"); MIR_interp(ctx, f->item, resv, (size_t) (na + nd), V10(vals, 0), V10(vals, 10), V10(vals, 20), V10(vals, 30), V10(vals, 40), V10(vals, 50), V10(vals, 60), V10(vals, 70)); }  /* both entry points (they size the argument buffer separately) */
      got = rt == 'd' ? (int64_t) res.d : rt == 'f' ? (int64_t) res.f : rt == 'l' ? (int64_t) res.ld : res.i; f->interp_runs++; C->count("interp_runs");
      if (rt == 'Q') { second = resv[1].i; have_second = true; }
      if (f->generated) C->count("interp_after_generation");
    } else {
      int64_t a[70] = {0}; for (int i = 0; i < na && i < 70; i++) a[i] = args[(size_t) i];
      void *addr = f->item->addr;
      if (f->addr_seen && f->addr_seen != addr) { out.fail("public_address_changed", "call", fmt("public address of %s changed from %p to %p", n.c_str(), f->addr_seen, addr)); return; }
      if (typed || (clock_ticks & 3) == 3) { got = call_typed(addr, ps, rt, a, &second); have_second = rt == 'Q'; }
      else if (na > 8) { got = ((wide_fn) addr)(V10(a, 0), V10(a, 10), V10(a, 20), V10(a, 30), V10(a, 40), V10(a, 50), V10(a, 60)); C->count("wide_function_called"); }
      else got = ((universal_fn) addr)(a[0], a[1], a[2], a[3], a[4], a[5], a[6], a[7], 2.0, 3.0, 4.0, 5.0, 6.0, 7.0, 8.0, 9.0);
      f->addr_calls++; C->count("address_calls");
      if (iface == 3 && f->addr_calls == 1) C->count("gen_lazy_on_first_call");
      if (iface == 4) f->lazybb_entered = true;
    }
    if (have_second) { C->count("two_results_entered"); if (second != (got ^ 23130)) { out.fail("wrong_result", interp ? "interp" : fmt("iface%d", iface), fmt("%s via %s: the second result is %lld, it should be the first (%lld) ^ 23130", n.c_str(), interp ? "MIR_interp" : "address", (long long) second, (long long) got)); return; } }
    th.u64((uint64_t) got); if (getenv("LCSIM_ALLOC_DUMP")) fprintf(stderr, "got %lld\n", (long long) got);
    bool late = false; for (auto &bl : bound_late) if (bl.first.first == f->mod) { auto b0 = bound.find(bl.first); if (b0 != bound.end() && b0->second.def != bl.second.def) late = true; }
    if (got != want && mods[f->mod].dc_resolver) { C->count("dont_care_observation_skipped"); return; }
    if (got != want && (mods[f->mod].ambiguous || late)) {
      // does the value match what the implementation is known to do on re-link (inlined direct calls keep the old definition)?
      prog::Model keep = model; use_impl_bindings = true; model.log.clear(); model.entered.clear(); model.steps = 0; model.overrun = false; model.depth = 0;
      int64_t alt = model.call(def, args); use_impl_bindings = false; model = keep;
      if (got == alt && late && !mods[f->mod].ambiguous) { out.fail("interp_binds_import_address_at_first_interpretation", interp ? "interp" : fmt("iface%d", iface), fmt("%s takes the address of an imported item; it was linked, then the name was redefined, then the function was interpreted for the first time: the interpreter re-reads the address from the global table when it translates the function and sees the later definition (returned %lld; the definition bound when the link step completed gives %lld); generated code keeps the link-time binding", n.c_str(), (long long) got, (long long) want)); return; }
      if (got == alt) { out.fail("relink_keeps_inlined_definition", interp ? "interp" : fmt("iface%d", iface), fmt("%s was left queued by MIR_link(ctx, NULL, ..), a name it imports was redefined, and the next link step re-linked it: its direct call still runs the definition inlined by the first step (returned %lld; binding to the latest definition gives %lld)", n.c_str(), (long long) got, (long long) want)); return; }
    }
    if (got != want) { out.fail("wrong_result", interp ? "interp" : fmt("iface%d", iface), fmt("%s(%s) via %s returned %lld, the program model says %lld", n.c_str(), args.empty() ? "" : std::to_string(args[0]).c_str(), interp ? "MIR_interp" : fmt("address (interface %d, opt %d)", iface, opt_level).c_str(), (long long) got, (long long) want)); return; }
    if (ext_log.size() != model.log.size() || !std::equal(ext_log.begin(), ext_log.end(), model.log.begin())) { out.fail("wrong_ext_log", interp ? "interp" : fmt("iface%d", iface), fmt("external-call log of %s differs from the model (%zu vs %zu calls)", n.c_str(), ext_log.size(), model.log.size()) + first_log_diff()); return; }
    C->count("results_checked");
    for (auto &sp : snaps) { check_text(*sp.first, sp.second, out, interp ? "after MIR_interp" : "after a call through the public address"); if (out.violation) break; }
  }

  // ------------------------------------------------------------------------------------------ generation
  // ---- C13: load / register / link histories over modules that export, import and redefine overlapping names
  Json generate_c13(Rng &r, const Json &cfg) {
    (void) cfg;
    Json plan = Json::object(), kn = Json::object(), al = Json::object(), prog = Json::object(), mods_j = Json::array(), ops = Json::array();
    kn.set("mode", "C13"); al.set("realloc", (int) (r.chance(1, 2) ? 0 : r.range(1, 2))); al.set("junk", 0xA5); al.set("gap", 16); kn.set("alloc", al);
    kn.set("placement", (int) (r.chance(1, 2) ? P_PACKED_FAR : r.below(4)));
    static const char *pool[] = {"f", "g", "h"};
    int nver = (int) r.range(2, 7); int salt = 100;
    std::vector<std::set<std::string>> defs(nver), imps(nver), ddefs(nver);
    auto push = [&](std::initializer_list<Json> l) { Json o = Json::array(); for (auto &x : l) o.push(x); ops.push(o); };
    for (int i = 0; i < nver; i++) {
      Json mo = Json::object(), funcs = Json::array(); mo.set("name", prog::S("m%d", i)); mo.set("fwd_first", (int) r.coin()); mo.set("fwd_after", (int) r.chance(1, 3));
      for (auto nm : pool) if (r.chance(2, 5)) defs[i].insert(nm);
      for (auto nm : pool) if (!defs[i].count(nm) && r.chance(3, 5)) imps[i].insert(nm);
      static const char *dpool[] = {"d1", "d2"}; Json dataj = Json::array(); std::set<std::string> ddef;
      for (auto dn : dpool) if (r.chance(1, 4)) { Json d = Json::object(); d.set("name", dn); d.set("val", salt += 7); d.set("exp", 1); if (r.chance(1, 3)) d.set("multi", 1); dataj.push(d); ddef.insert(dn); ddefs[i].insert(dn); }
      if (dataj.size()) mo.set("data", dataj);
      for (auto &nm : defs[i]) {
        Json f = Json::object(), b = Json::array(); f.set("name", nm); f.set("salt", salt += 7); f.set("na", 1); f.set("nd", 0); f.set("fuel", 0); f.set("exp", 1);
        Json s1 = Json::array(); s1.push("op"); s1.push(r.coin() ? "add" : "xor"); s1.push("v0"); s1.push("a0"); s1.push((int) r.range(1, 99)); b.push(s1);
        Json rt = Json::array(); rt.push("ret"); rt.push("v0"); b.push(rt); f.set("body", b); funcs.push(f);
      }
      Json e = Json::object(), b = Json::array(); e.set("name", prog::S("e%d", i)); e.set("salt", salt += 7); e.set("na", 1); e.set("nd", 0); e.set("fuel", 0); e.set("exp", 1);
      int k = 1;
      for (auto nm : pool) if (defs[i].count(nm) || imps[i].count(nm)) {
        Json c = Json::array(), a = Json::array(); a.push(r.coin() ? Json("a0") : Json((int) r.range(0, 50))); c.push(r.chance(1, 5) ? "icall" : "call"); c.push(prog::S("v%d", k)); c.push(nm); c.push(a); b.push(c);
        Json x = Json::array(); x.push("op"); x.push("xor"); x.push("v0"); x.push("v0"); x.push(prog::S("v%d", k)); b.push(x);
        Json y = Json::array(); y.push("op"); y.push("mul"); y.push("v0"); y.push("v0"); y.push(31); b.push(y); k++;
      }
      for (auto dn : dpool) if (ddef.count(dn) || r.chance(1, 4)) {
        if (!ddef.count(dn)) imps[i].insert(dn);
        Json c = Json::array(); c.push("ldata"); c.push("v4"); c.push(dn); b.push(c);
        Json x = Json::array(); x.push("op"); x.push("add"); x.push("v0"); x.push("v0"); x.push("v4"); b.push(x);
      }
      Json rt = Json::array(); rt.push("ret"); rt.push("v0"); b.push(rt); e.set("body", b); funcs.push(e);
      mo.set("funcs", funcs); mods_j.push(mo);
    }
    prog.set("mods", mods_j);
    // resolver knows a per-run subset of the pool
    Json rs = Json::object(); for (auto nm : pool) if (r.chance(1, 3)) rs.set(nm, (int) r.below(8)); for (auto nm : {"d1", "d2"}) if (r.chance(1, 3)) rs.set(nm, (int) r.below(8)); if (rs.size()) kn.set("resolver", rs);
    // history: a loose model (which names are known) biases towards long error-free histories, but errors are legal histories too
    int Lm = nver >= 3 && r.chance(1, 4) ? nver - 1 : -1;   // a module that only the resolver call-back creates and loads, during a link
    if (Lm >= 0) for (auto &d : defs[Lm]) rs.set(d, -(Lm + 1));
    if (rs.size()) kn.set("resolver", rs);
    std::set<std::string> known, known_fn; bool permit = false; std::vector<int> order; for (int i = 0; i < nver; i++) if (i != Lm) order.push_back(i);
    for (size_t i = order.size(); i > 1; i--) std::swap(order[i - 1], order[r.below(i)]);
    size_t next = 0; std::vector<int> pend, linked; int risk = (int) r.below(100) < 25 ? 4 : 30;  // 1/risk chance to ignore the bias
    int nsteps = (int) r.range(4, 22);
    for (int st = 0; st < nsteps; st++) {
      unsigned c = (unsigned) r.below(100);
      if (c < 30 && next < order.size()) {
        int mi = order[next]; bool clash = false; for (auto &d : defs[mi]) if (known.count(d)) clash = true;
        if (clash && !permit && !r.chance(1, risk)) { push({"redef", 1}); permit = true; }
        push({"scan", mi}); push({"load", mi}); next++; pend.push_back(mi); for (auto &d : defs[mi]) { known.insert(d); known_fn.insert(d); } for (auto &d : ddefs[mi]) known.insert(d);
      } else if (c < 42) { static const char *all[] = {"f", "g", "h", "d1", "d2"}; const char *nm = all[r.below(5)]; push({"ldext", nm, (int) r.below(8)}); known.insert(nm); }
      else if (c < 48) { permit = r.coin(); push({"redef", (int) permit}); }
      else if (c < 72 && !pend.empty()) {
        bool undefined = false, use_res = r.chance(1, 3); for (int mi : pend) for (auto &n : imps[mi]) if (!known.count(n) && !(use_res && rs.has(n))) undefined = true;
        if (undefined && !r.chance(1, risk)) { for (int mi : pend) for (auto &n : imps[mi]) if (!known.count(n)) { push({"ldext", n, (int) r.below(8)}); known.insert(n); } }
        int iface = r.chance(1, 16) ? 0 : (int) r.range(1, 3);
        push({"link", iface, (int) use_res}); if (use_res) for (int mi : pend) for (auto &n : imps[mi]) if (rs.has(n)) known.insert(n);
        if (iface != 0) { for (int mi : pend) linked.push_back(mi); pend.clear(); }
      } else if (!linked.empty()) { int mi = linked[r.below(linked.size())]; Json a = Json::array(); a.push((long long) r.range(0, 1000)); push({r.chance(2, 3) ? "call" : "interp", prog::S("e%d", mi), a}); }
    }
    if (!pend.empty()) { for (int mi : pend) for (auto &n : imps[mi]) if (!known.count(n)) push({"ldext", n, (int) r.below(8)}); push({"link", (int) r.range(1, 3), 0}); for (int mi : pend) linked.push_back(mi); }
    for (int mi : linked) { Json a = Json::array(); a.push((long long) r.range(0, 1000)); push({r.coin() ? "call" : "interp", prog::S("e%d", mi), a}); }
    { Rng rv(mix2(r.next(), 0x7661726961646963ull)); for (auto &op : ops.a) if (op[0].s == "interp") op.push((int) rv.coin()); }  // 1: enter through the variadic MIR_interp, 0: MIR_interp_arr
    plan.set("knobs", kn); plan.set("prog", prog); plan.set("ops", ops);
    return plan;
  }

  Json generate(Rng &r, const Json &cfg) override {
    std::string m = cfg.gets("mode", "C17");
    if (m == "C13") return generate_c13(r, cfg);
    Json plan = Json::object(), kn = Json::object(), al = Json::object();
    kn.set("mode", m);
    al.set("realloc", (int) (r.chance(1, 2) ? 0 : r.range(1, 2))); al.set("junk", (int) (r.coin() ? 0xA5 : r.coin() ? 0xFF : 0)); al.set("gap", (int) (r.coin() ? 16 : 48));
    kn.set("alloc", al); kn.set("placement", (int) (r.chance(1, 3) ? P_PACKED_FAR : r.below(4)));
    { static const long long G = 1ll << 30; static const long long gaps[] = {G, 2 * G - 8192, 2 * G + 8192, 3 * G, 4 * G - 8192, 4 * G, 4 * G + 8192, 6 * G}; kn.set("placement_gap", gaps[r.below(8)]); }
    if (r.chance(1, 8)) kn.set("prelude", (int) r.range(1, 4));  // a context that lived and was finished earlier in this process (interface of its one link step)
    prog::GenOpts go; go.nmods = (int) r.range(1, 3); go.nfuncs = (int) r.range(1, 3); go.body = (int) r.range(3, 7);
    bool big = r.chance(1, 6);   // large bodies: code that spans pages, many switch tables (absolute-address relocations)
    if (big) { go.body = (int) r.range(20, 70); go.nfuncs = (int) r.range(2, 5); }
    // swarm: feature subset per run
    go.lref = r.chance(1, 2); go.jt = r.chance(1, 2); go.sw = r.chance(2, 3); go.icall = r.chance(1, 2); go.ext = r.chance(2, 3); go.mem = r.chance(1, 2); go.loops = r.chance(2, 3); go.doubles = r.chance(1, 3); go.recursion = r.chance(1, 2); go.extn = r.chance(1, 4); go.wide = r.chance(1, 8); go.typed = r.chance(2, 5); go.extm = r.chance(1, 4); go.blocks = r.chance(2, 3); go.fcmp = r.chance(1, 2); go.two_results = r.chance(1, 2);
    if (big) { go.sw = true; go.sw_weight = 30; go.recursion = false; }
    go.blocked = r.coin();
    prog::Generator g(r, go); Json prog = g.program(); prog::protect_fuel(prog);
    for (auto &mo : prog["mods"].a) { mo.set("fwd_first", (int) r.coin()); mo.set("rev", (int) r.coin()); mo.set("cmacros", (int) r.coin()); mo.set("cdecls", (int) r.coin()); mo.set("fwd_after", (int) r.chance(1, 4)); mo.set("inl", (int) r.chance(1, 3)); }
    Json ops = Json::array(); size_t nm = prog.at("mods").size();
    auto push = [&](std::initializer_list<Json> l) { Json o = Json::array(); for (auto &x : l) o.push(x); ops.push(o); };
    std::vector<std::string> names; for (auto &mo : prog.at("mods").a) for (auto &f : mo.at("funcs").a) names.push_back(f.gets("name"));
    auto rnd_args = [&]() { Json a = Json::array(); for (int i = 0; i < 8; i++) a.push((long long) (r.chance(1, 3) ? r.range(-3, 3) : r.chance(1, 2) ? (int64_t) r.next() : r.range(0, 1000))); return a; };
    // link steps: each step creates, loads and links a dependency-closed set of modules with its own interface
    std::vector<std::set<size_t>> deps(nm); std::map<std::string, size_t> defmod;
    for (size_t mi = 0; mi < nm; mi++) for (auto &f : prog.at("mods")[mi].at("funcs").a) defmod[f.gets("name")] = mi;
    for (size_t mi = 0; mi < nm; mi++) for (auto &f : prog.at("mods")[mi].at("funcs").a) prog::walk(f.at("body"), [&](const Json &st) { if (st[0].s == "call" || st[0].s == "icall" || st[0].s == "fcmp") deps[mi].insert(defmod[st[2].s]); });
    bool c2m_ok = cfg.geti("c2mir", 1) != 0;
    std::set<size_t> remaining; for (size_t i = 0; i < nm; i++) remaining.insert(i);
    if (r.chance(1, 3)) push({"geninit"});
    std::vector<size_t> linked_so_far;
    bool noexec = m == "C17" && r.chance(1, 10);
    // programs with lref tables keep to one engine family (known finding: the table is shared between engines), except
    // in a few probing runs of the modes whose statements cover engine mixing
    bool probe_mix = (m == "C03" || m == "C16") && r.chance(1, 25);
    bool use_resolver_run = r.chance(1, 4);
    int family = go.lref && !probe_mix ? (r.chance(1, 3) ? 1 : 2) : 0; bool any_bb = false;  // whole run linked without an interface: build/output/write/finish only
    while (!remaining.empty()) {
      std::vector<size_t> rem(remaining.begin(), remaining.end()); std::set<size_t> step; std::vector<size_t> work = {rem[r.below(rem.size())]};
      if (r.chance(1, 3)) work = rem;  // everything in one step
      while (!work.empty()) { size_t x = work.back(); work.pop_back(); if (!remaining.count(x) || step.count(x)) continue; step.insert(x); for (auto d : deps[x]) work.push_back(d); }
      std::vector<size_t> order(step.begin(), step.end()); for (size_t i = order.size(); i > 1; i--) std::swap(order[i - 1], order[r.below(i)]);
      for (size_t mi : order) {
        unsigned c = (unsigned) r.below(100);
        push({c < 55 ? "scan" : c < 75 && c2m_ok ? "c2m" : c < 90 ? "bin" : "scan", (long long) mi});
        push({"scan", (long long) mi});  // fallback creation if the chosen route had to be skipped
        push({"load", (long long) mi}); remaining.erase(mi);
      }
      if (r.chance(1, 3)) push({"opt", (int) r.below(4)});
      int iface = noexec ? 0 : m == "C16" ? (int) r.range(1, 3) : (int) r.range(1, 4);  // C16 states whole-function generation only
      if (family == 1 && iface != 0) iface = 1; else if (family == 2 && iface == 1) iface = (int) r.range(2, m == "C16" ? 3 : 4);
      if (iface == 4) {  // the lazy basic-block generator consumes the MIR of the functions it enters: no later step may inline them
        bool needed_later = false; for (auto x : remaining) for (auto d : deps[x]) if (step.count(d)) needed_later = true;
        if (needed_later) iface = 3;
      }
      if (iface == 4 && !probe_mix && (int) kn.geti("placement", 1) >= P_SPREAD_4G) iface = 3;  // bb thunks reach only +-2GB (known finding, probed rarely)
      if (iface == 4) any_bb = true;
      push({"link", iface, (int) use_resolver_run});   // externals come from the import resolver instead of MIR_load_external
      // between link steps: execute, interpret or explicitly generate functions of the modules linked so far (a function may get
      // its code while a callee in the same module has none yet, before a later step generates eagerly)
      if (!remaining.empty()) {
        for (auto x : step) linked_so_far.push_back(x);
        int nb = r.chance(1, 2) ? 0 : (int) r.range(1, 3);
        for (int q = 0; q < nb; q++) {
          const auto &mo = prog.at("mods")[linked_so_far[r.below(linked_so_far.size())]]; if (!mo.at("funcs").size()) continue;
          const std::string fnm = mo.at("funcs")[r.below(mo.at("funcs").size())].gets("name"); unsigned c = (unsigned) r.below(100);
          if (c < 45) push({"call", fnm, rnd_args()});
          else if (c < 60 && family != 2 && !any_bb) push({"interp", fnm, rnd_args()});
          else if (c < 90 && family != 1 && iface != 0) push({"gen", fnm});
          else push({"opt", (int) r.below(4)});
        }
      }
    }
    int nuse = (int) r.range(2, 10);
    for (int i = 0; i < nuse; i++) {
      unsigned c = (unsigned) r.below(100); const std::string &n = names[r.below(names.size())];
      if (c < 40) push({"call", n, rnd_args()});
      else if (c < 55) { if (family == 2 || (any_bb && !probe_mix)) push({"call", n, rnd_args()}); else push({"interp", n, rnd_args()}); }
      else if (c < 70) { if (family == 1) push({"interp", n, rnd_args()}); else push({"gen", n}); }
      else if (c < 76) push({"opt", (int) r.below(4)});
      else if (c < 82) push({"out"});
      else if (c < 88) push({"outitem", n});
      else if (c < 94) push({"write"});
      else push({"geninit"});
      if (r.chance(1, 12)) { push({"genfinish"}); if (r.coin()) push({"geninit"}); }
    }
    // optional re-entry of MIR from the external
    if (go.ext && r.chance(1, 2)) {
      Json re = Json::object();
      for (auto &mo : prog.at("mods").a) for (auto &f : mo.at("funcs").a) { bool leaf = true; prog::walk(f.at("body"), [&](const Json &st) { if (st[0].s == "call" || st[0].s == "icall" || st[0].s == "ext" || st[0].s == "jt" || st[0].s == "lt" || st[0].s == "ld" || st[0].s == "extn" || st[0].s == "extm") leaf = false; }); if (leaf && f.geti("na") >= 2 && f.geti("na") <= 8 && !f.has("ps") && !f.has("rt") && re.size() < 2) re.set(std::to_string(1 + (int) re.size() * 2), f.gets("name")); }
      if (re.size()) kn.set("reenter", re);
    }
    { Rng ro(mix2(r.next(), 0x6f70656e6d6f64ull));  // a module under construction while other functions are generated and run
      size_t first_link = ops.a.size(); for (size_t k = 0; k < ops.a.size(); k++) if (ops[k][0].s == "link") { first_link = k; break; }
      if (ro.chance(1, 5) && first_link + 1 < ops.a.size()) {
        size_t a = first_link + 1 + ro.below(ops.a.size() - first_link - 1), b = a + 1 + ro.below(ops.a.size() - a);
        Json om = Json::array(); om.push("openmod"); Json cm = Json::array(); cm.push("closemod");
        ops.a.insert(ops.a.begin() + (long) b, cm); ops.a.insert(ops.a.begin() + (long) a, om);
      } }
    { Rng rv(mix2(r.next(), 0x7661726961646963ull)); for (auto &op : ops.a) if (op[0].s == "interp") op.push((int) rv.coin()); }  // 1: enter through the variadic MIR_interp, 0: MIR_interp_arr
    plan.set("knobs", kn); plan.set("prog", prog); plan.set("ops", ops);
    return plan;
  }

  // A crash inside the generator may be a plain program-level defect of the optimizer (C01 territory) rather than
  // anything the history did.  Decide by experiment: the same program, in a fresh context, with the most ordinary
  // history (scan, load, link with eager generation) at each optimization level.  If that crashes too, the history is
  // not to blame and the death is counted as a side finding, not as a verdict on a history property.
  // "the same program": the modules the history under examination loads (another module of the plan's program may have a defect of its own)
  static bool loaded_in(const Json &plan, size_t mi) {
    bool any = false, me = false;
    for (auto &op : plan.at("ops").a) if (op.k == Json::Arr && op.size() > 1 && op[0].s == "load") { any = true; if ((size_t) op[1].num() == mi) me = true; }
    return me || !any;
  }
  // ... in the order in which that history loads them (the order decides what the link step can inline)
  static std::vector<size_t> load_order(const Json &plan, size_t nm) {
    std::vector<size_t> v;
    for (auto &op : plan.at("ops").a) if (op.k == Json::Arr && op.size() > 1 && op[0].s == "load") { size_t mi = (size_t) op[1].num() % (nm ? nm : 1); if (std::find(v.begin(), v.end(), mi) == v.end()) v.push_back(mi); }
    if (v.empty()) for (size_t mi = 0; mi < nm; mi++) v.push_back(mi);
    return v;
  }
  // The same program with the most ordinary history under each engine: interpreter, eager generation at -O0 .. -O3.
  // One letter per engine: O as the model says, W wrong value, C crash, H watchdog, X another violation.
  std::string engine_profile(const Json &plan, int tmo) {
    std::string prof;
    for (int round = -1; round < 4; round++) {
      bool interp = round < 0; Json p = plan; Json ops = Json::array(); size_t nm = plan.at("prog").at("mods").size();
      auto push = [&](std::initializer_list<Json> l) { Json o = Json::array(); for (auto &x : l) o.push(x); ops.push(o); };
      push({"opt", interp ? 2 : round});
      for (size_t mi : load_order(plan, nm)) { push({"scan", (long long) mi}); push({"load", (long long) mi}); }
      push({"link", interp ? 1 : 2, 0});
      for (auto &op : plan.at("ops").a) if (op.k == Json::Arr && op.size() > 1 && (op[0].s == "call" || op[0].s == "interp")) { Json c = op; if (!interp) c[0] = Json("call"); ops.push(c); }
      p.set("ops", ops); p["knobs"].set("placement", (int) P_PACKED_FAR);
      ChildEnd c = run_isolated(*this, p, tmo, false);
      prof += c.status == "ok" ? 'O' : c.status == "hang" ? 'H' : c.status == "crash" ? 'C' : (c.cls == "wrong_result" || c.cls == "wrong_ext_log") ? 'W' : 'X';
    }
    return prof;
  }
  // Engines that disagree on an ordinary history at the level of the execution machinery -- the interpreter alone fails, or
  // generated code fails whatever the optimization level -- make the program's behaviour depend on the interface: that is C03's
  // subject.  A failure of every engine (front end, inliner, the model itself) or at some levels only (C01/C02) is not.
  static bool machinery_level(const std::string &prof) {
    bool interp_bad = prof[0] != 'O', gen_all_bad = prof[1] != 'O' && prof[2] != 'O' && prof[3] != 'O' && prof[4] != 'O';
    bool gen_any_bad = prof.find_first_not_of('O', 1) != std::string::npos;
    if (interp_bad && gen_all_bad) return false;   // everybody
    if (interp_bad && !gen_any_bad) return true;   // interpreter only
    if (!interp_bad && gen_all_bad) return true;   // generated code at every level, optimization or not
    return false;                                  // (some levels only: the optimizer's or the fast allocator's business, C01/C02)
  }
  void reclassify(const Json &plan, ChildEnd &e) override {
    if (!plan.has("prog")) return;
    std::string before_cls = e.cls, before_sig = e.sig;
    reclassify1(plan, e);
    if (e.cls.compare(0, 19, "side_program_level_") == 0 && plan.at("knobs").gets("mode", "") == "C03") {
      std::string prof = engine_profile(plan, before_cls == "hang" ? 12 : hang_seconds());
      if (machinery_level(prof)) { e.detail = "engines disagree on the ordinary history of this program (interp, gen -O0..-O3: " + prof + "): " + e.detail; e.cls = "engines_disagree"; e.sig = before_cls + "_" + e.sig + "_" + prof; }
      else e.detail = "[" + prof + "] " + e.detail;
    }
  }
  void reclassify1(const Json &plan, ChildEnd &e) {
    // Modules created through c2mir carry whatever c2mir made of the generated C.  If the very same history with those
    // modules created from the MIR text of the same program (scan) behaves, the fault lies in the C translation (C07
    // territory: e.g. a 32-bit result whose undefined upper half is used, which makes the outcome depend on stale
    // register / stack contents and therefore *look* history dependent), not in the history.
    // (Only for what the compiled code does when it is linked, generated or run: a crash inside c2mir itself is the library's.)
    bool in_c2mir = e.detail.find("during c2mir_") != std::string::npos || e.detail.find("in c2mir_") != std::string::npos || e.detail.find("during MIR_finish") != std::string::npos;
    if ((e.cls == "wrong_result" || e.cls == "wrong_ext_log" || e.cls == "crash") && !in_c2mir) {
      bool has_c2m = false; Json p = plan;
      for (auto &op : p["ops"].a) if (op.k == Json::Arr && op.size() > 1 && op[0].s == "c2m") { op[0] = Json("scan"); has_c2m = true; }
      if (has_c2m) {
        ChildEnd c = run_isolated(*this, p, hang_seconds(), false);
        if (c.status == "ok") { e.detail = "the same history with the c2mir-compiled modules created from MIR text instead behaves correctly: " + e.detail; e.sig = e.cls + "_" + e.sig; e.cls = "side_c2mir_translation_defect"; return; }
      }
    }
    if (e.cls == "wrong_result" || e.cls == "wrong_ext_log") {
      // Same experiment for a wrong value: same program, same creation routes, one ordinary link step with the engine that
      // produced the wrong value (interpreter, or eager generation at each level), then the same calls.  If the model is
      // contradicted there too, the defect is in what the program means to that engine (C01/C02/C04/C07 territory).
      // (A function entered through MIR_interp still calls generated code when its callees were linked with a generating
      // interface: for such histories both engines are tried.)
      bool interp0 = e.sig == "interp" || e.sig == "iface1", mixed = false;
      for (auto &op : plan.at("ops").a) if (op.k == Json::Arr && op.size() > 1 && ((op[0].s == "link" && (int) op[1].num() % 5 >= 2) || op[0].s == "gen")) mixed = true;
      for (int round = interp0 ? -1 : 0; round < (interp0 && !mixed ? 0 : 4); round++) {
        bool interp = round < 0; int level = interp ? 0 : round;
        Json p = plan; Json ops = Json::array(); size_t nm = plan.at("prog").at("mods").size();
        auto push = [&](std::initializer_list<Json> l) { Json o = Json::array(); for (auto &x : l) o.push(x); ops.push(o); };
        push({"opt", level});
        for (auto &op : plan.at("ops").a) if (op.k == Json::Arr && op.size() > 1 && (op[0].s == "scan" || op[0].s == "c2m" || op[0].s == "bin")) ops.push(op);
        for (size_t mi : load_order(plan, nm)) { push({"scan", (long long) mi}); push({"load", (long long) mi}); }
        push({"link", interp ? 1 : 2, 0});
        for (auto &op : plan.at("ops").a) if (op.k == Json::Arr && op.size() > 1 && (op[0].s == "call" || op[0].s == "interp")) { Json c = op; c[0] = Json(interp && e.sig == "interp" ? "interp" : "call"); ops.push(c); }
        p.set("ops", ops);
        ChildEnd c = run_isolated(*this, p, hang_seconds(), false);
        if (!interp && (c.status == "crash" || c.status == "hang")) {
          // eager generation of the whole program trips over another function (a generator defect of its own): the same ordinary
          // history with generation on first call, which only generates what the calls reach
          for (auto &o : p["ops"].a) if (o[0].s == "link") o[1] = Json(3);
          c = run_isolated(*this, p, hang_seconds(), false);
        }
        if (!interp && level == 2 && (c.status == "crash" || c.status == "hang") && plan.at("knobs").gets("mode", "") != "C03") {
          // Still another function's generator defect in the way.  For the properties whose subject is not the mixing of interfaces
          // (C16, C17): the failing history reduced to its creation, load, link (same steps, same interfaces) and call ops.  If the
          // wrong value is still there it does not depend on generation order, repetition, output or interpretation in between.
          Json q = plan; Json qo = Json::array();
          for (auto &op : plan.at("ops").a) if (op.k == Json::Arr && op.size() > 0 && (op[0].s == "scan" || op[0].s == "c2m" || op[0].s == "bin" || op[0].s == "load" || op[0].s == "link" || op[0].s == "call")) qo.push(op);
          q.set("ops", qo);
          c = run_isolated(*this, q, hang_seconds(), false);
        }
        if (c.status == "violation" && (c.cls == "wrong_result" || c.cls == "wrong_ext_log")) {
          e.cls = "side_program_level_wrong_value"; e.sig = interp ? "interp" : "gen_O" + std::to_string(level);
          e.detail = "the plain history create/load/link/call of the same program gives the same kind of wrong value (" + c.detail.substr(0, 120) + "): " + e.detail; return;
        }
      }
      return;
    }
    if (e.cls == "unexpected_error" && e.sig == "err3") {
      // MIR reports "no memory": the simulator's 1GB arena is exhausted, i.e. the library allocates without bound (a
      // non-terminating pass).  The same experiment as for a hang: does the ordinary history of this program do it too?
      for (int level = 0; level < 4; level++) {
        Json p = plan; Json ops = Json::array(); size_t nm = plan.at("prog").at("mods").size();
        auto push = [&](std::initializer_list<Json> l) { Json o = Json::array(); for (auto &x : l) o.push(x); ops.push(o); };
        push({"opt", level});
        for (size_t mi : load_order(plan, nm)) { push({"scan", (long long) mi}); push({"load", (long long) mi}); }
        push({"link", 2, 0});
        p.set("ops", ops); p["knobs"].set("placement", (int) P_PACKED_FAR);
        ChildEnd c = run_isolated(*this, p, hang_seconds(), false);
        if (c.status == "hang" || (c.status == "violation" && c.cls == "unexpected_error" && c.sig == "err3")) {
          e.cls = "side_program_level_generator_hang"; e.sig = "memory"; e.detail = "the plain history scan/load/link(eager, -O" + std::to_string(level) + ") of the same program allocates without bound too: " + e.detail; return;
        }
      }
      return;
    }
    bool wild_store = e.cls == "code_write_outside_window" && e.sig == "jit_or_harness";  // a store executed by generated (or misdirected) code, not by the library
    if (e.cls != "crash" && e.cls != "hang" && !wild_store) return;
    bool was_hang = e.cls == "hang"; int tmo = was_hang ? 12 : hang_seconds();
    {  // known finding: lazy-bb thunks / branch patches reach only +-2GB.  Same history with all code packed together?
      bool bb = false; for (auto &op : plan.at("ops").a) if (op.k == Json::Arr && op.size() > 1 && op[0].s == "link" && op[1].num() % 5 == 4) bb = true;
      if (bb && plan.at("knobs").geti("placement", 1) != P_PACKED_FAR) {  // (a truncated jump can also land in mapped code and spin: hang)
        Json p = plan; p["knobs"].set("placement", (int) P_PACKED_FAR);
        size_t at = e.detail.rfind("[op "); int opno = at == std::string::npos ? -1 : atoi(e.detail.c_str() + at + 4);
        if (opno >= 0 && (size_t) opno + 1 < p["ops"].a.size()) p["ops"].a.resize((size_t) opno + 1);  // the history up to and including the failing op
        ChildEnd c = run_isolated(*this, p, hang_seconds(), false);
        if (c.status == "ok") { e.cls = "lazybb_rel32_far_placement"; e.detail = "the same history with all code holders packed within 2GB runs correctly: " + e.detail; return; }
      }
    }
    if (wild_store) return;
    bool uses_bb = false; for (auto &op : plan.at("ops").a) if (op.k == Json::Arr && op.size() > 1 && op[0].s == "link" && op[1].num() % 5 == 4) uses_bb = true;
    for (int level = 0; level < 4; level++) {
      Json p = plan; Json ops = Json::array(); size_t nm = plan.at("prog").at("mods").size();
      auto push = [&](std::initializer_list<Json> l) { Json o = Json::array(); for (auto &x : l) o.push(x); ops.push(o); };
      push({"opt", level});
      for (auto &op : plan.at("ops").a) if (op.k == Json::Arr && op.size() > 1 && (op[0].s == "scan" || op[0].s == "c2m" || op[0].s == "bin")) ops.push(op);  // same creation routes
      for (size_t mi : load_order(plan, nm)) { push({"scan", (long long) mi}); push({"load", (long long) mi}); }
      push({"link", 2, 0});
      bool hang_in_call = was_hang && (e.detail.find("during call through address") != std::string::npos || e.detail.find("during MIR_interp") != std::string::npos);  // the generated code spins, not the generator
      if (!was_hang || hang_in_call) for (auto &op : plan.at("ops").a) if (op.k == Json::Arr && op.size() > 1 && (op[0].s == "call" || op[0].s == "interp")) { Json cc = op; cc[0] = Json("call"); ops.push(cc); }  // and the same executions
      p.set("ops", ops); p["knobs"].set("placement", (int) P_PACKED_FAR);
      ChildEnd c = run_isolated(*this, p, tmo, false);
      if (c.status == "violation" && (c.cls == "wrong_result" || c.cls == "wrong_ext_log")) c.status = "crash", c.sig = "wrong_value_instead";  // the plain history miscomputes: program-level as well
      if (was_hang && c.status == "hang") { e.cls = "side_program_level_generator_hang"; e.sig = "watchdog"; e.detail = "the plain history scan/load/link(eager, -O" + std::to_string(level) + ") of the same program does not terminate within the watchdog either"; return; }
      if (c.status != "crash" && uses_bb) {  // the same with the lazy basic-block generator and the same calls
        Json q = p; Json &qo = q["ops"]; qo.a.back() = Json::array(); qo.a.back().push("link"); qo.a.back().push(4); qo.a.back().push(0);
        for (auto &op : plan.at("ops").a) if (op.k == Json::Arr && op.size() > 1 && (op[0].s == "call" || op[0].s == "interp")) { Json cc = op; cc[0] = Json("call"); qo.push(cc); }
        c = run_isolated(*this, q, hang_seconds(), false);
      }
      if (c.status == "crash") {
        e.cls = "side_program_level_generator_crash"; e.detail = "the plain history scan/load/link(eager, -O" + std::to_string(level) + ") of the same program crashes too (" + c.sig + "): " + e.detail; e.sig = c.sig;
        return;
      }
    }
  }

  std::vector<Json> simplify(const Json &plan) override {
    std::vector<Json> c;
    // drop whole functions' bodies to a single ret; drop statements
    const Json &mods_j = plan.at("prog").at("mods");
    for (size_t mi = 0; mi < mods_j.size(); mi++) for (size_t fi = 0; fi < mods_j[mi].at("funcs").size(); fi++) {
      const Json &body = mods_j[mi].at("funcs")[fi].at("body");
      size_t lo = mods_j[mi].at("funcs")[fi].geti("fuel") ? 1 : 0;
      for (size_t si = lo; si + 1 < body.size(); si++) { Json p = plan; Json &b = p["prog"]["mods"][mi]["funcs"][fi]["body"]; b.a.erase(b.a.begin() + si); c.push_back(p); }
    }
    const Json &kn = plan.at("knobs");
    if (kn.geti("placement", 0) != P_PACKED_FAR) { Json p = plan; p["knobs"].set("placement", (int) P_PACKED_FAR); c.push_back(p); }
    if (kn.at("alloc").geti("realloc", 0) != 0) { Json p = plan; p["knobs"]["alloc"].set("realloc", 0); c.push_back(p); }
    if (kn.has("reenter")) { Json p = plan; p["knobs"].erase("reenter"); c.push_back(p); }
    return c;
  }
};

static void MIR_NO_RETURN err_func(MIR_error_type_t t, const char *format, ...) {
  LcSim *s = g_self; s->err_code = (int) t; va_list ap; va_start(ap, format); vsnprintf(s->err_msg, sizeof s->err_msg, format, ap); va_end(ap);
  longjmp(s->err_jmp, 1);
}
#ifndef LCSIM_NO_MAIN
int main(int argc, char **argv) { LcSim h; g_self = &h; return runner_main(argc, argv, h); }
#endif
