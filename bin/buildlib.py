"""Build support: everything is rebuilt from /repo's current working tree, cached by content hash.

libmir-<variant>-<hash>/libmir.so   mir.c + mir-gen.c + c2mir/c2mir.c, -DNDEBUG -O2 (shipped configuration),
                                    linked with -Wl,--wrap=... so that only references *from library objects* to libc
                                    allocation / mapping / clock functions are redirected to the simulator (libwrap).
<harness>-<variant>-<hash>/<harness> harness binary.
"""
import os, hashlib, subprocess, shutil, glob, time

WRAPS = ['malloc', 'calloc', 'realloc', 'free', 'strdup', 'mmap', 'munmap', 'mprotect', 'time', 'localtime_r',
         'localtime', 'gettimeofday', 'clock_gettime', 'getenv', 'exit']


class BuildError(Exception):
    pass


def _files(root, pats):
    out = []
    for p in pats:
        out += glob.glob(os.path.join(root, p), recursive=True)
    return sorted(set(f for f in out if os.path.isfile(f)))


def repo_hash(repo):
    h = hashlib.sha256()
    for f in _files(repo, ['*.c', '*.h', 'c2mir/*.c', 'c2mir/*.h', 'c2mir/x86_64/*', 'mir-utils/*.c']):
        h.update(os.path.relpath(f, repo).encode())
        h.update(b'\0')
        h.update(open(f, 'rb').read())
        h.update(b'\0')
    return h.hexdigest()[:16]


def verif_hash(verif):
    h = hashlib.sha256()
    for f in _files(verif, ['sim/*', 'checks/*', 'prog/*', 'bin/buildlib.py']):
        h.update(os.path.relpath(f, verif).encode())
        h.update(open(f, 'rb').read())
    return h.hexdigest()[:16]


def run_all(cmds, cwd):
    procs = [(c, subprocess.Popen(c, cwd=cwd, stdout=subprocess.PIPE, stderr=subprocess.STDOUT, text=True)) for c in cmds]
    for c, p in procs:
        out, _ = p.communicate()
        if p.returncode != 0:
            raise BuildError('%s\n%s' % (' '.join(c), out[-3000:]))


def prune(cache, prefix, keep):
    """Drop old cache entries: never one of the `keep` most recently used, never one used in the last two hours (another
    check - of this or of another source tree - may be running from it), never a build in progress (*.tmp<pid>)."""
    import time
    ds = sorted((d for d in glob.glob(os.path.join(cache, prefix + '-*')) if '.tmp' not in os.path.basename(d)), key=os.path.getmtime, reverse=True)
    now = time.time()
    for d in ds[keep:]:
        try:
            if now - os.path.getmtime(d) > 7200:
                shutil.rmtree(d, ignore_errors=True)
        except OSError:
            pass


def publish(tmp, d):
    """Move a finished build into place unless a concurrent builder of the same key was faster (then its result stays: a
    running check may already execute from it)."""
    if os.path.isdir(d):
        shutil.rmtree(tmp, ignore_errors=True)
        return
    try:
        os.rename(tmp, d)
    except OSError:
        shutil.rmtree(tmp, ignore_errors=True)


def cflags(variant):
    if variant == 'asan':
        return ['-O1', '-g', '-fsanitize=address', '-fno-omit-frame-pointer', '-DNDEBUG']
    if variant == 'assert':
        return ['-O1', '-g']
    return ['-O2', '-g', '-DNDEBUG']


def build_libmir(repo, verif, variant):
    cache = os.path.join(verif, '.cache')
    rh = repo_hash(repo)
    wk = hashlib.sha256((','.join(WRAPS) + ' '.join(cflags(variant))).encode()).hexdigest()[:6]
    d = os.path.join(cache, 'libmir-%s-%s%s' % (variant, rh, wk))
    so = os.path.join(d, 'libmir.so')
    if os.path.exists(so):
        os.utime(d)
        return d, rh
    tmp = d + '.tmp%d' % os.getpid()
    shutil.rmtree(tmp, ignore_errors=True)
    os.makedirs(tmp)
    cf = cflags(variant) + ['-std=gnu11', '-fsigned-char', '-fPIC', '-fno-tree-sra', '-fno-ipa-cp-clone', '-Wno-abi', '-w', '-I' + repo]
    run_all([['gcc'] + cf + ['-c', os.path.join(repo, s), '-o', o] for s, o in
             [('mir.c', 'mir.o'), ('mir-gen.c', 'mir-gen.o'), ('c2mir/c2mir.c', 'c2mir.o')]], tmp)
    wl = '-Wl,' + ','.join('--wrap=' + w for w in WRAPS)
    link = ['gcc', '-shared', '-o', 'libmir.so', 'mir.o', 'mir-gen.o', 'c2mir.o', wl, '-Wl,-z,relro,-z,now', '-lm', '-ldl']
    if variant == 'asan':
        link.insert(1, '-fsanitize=address')
    run_all([link], tmp)
    publish(tmp, d)
    prune(cache, 'libmir-%s' % variant, 4)
    return d, rh


HARNESS = {
    # name: (needs_libmir, c sources (compiled with repo includes, NDEBUG), c++ sources)
    'adtsim': (False, ['checks/adt_sut.c'], ['checks/adtsim.cpp']),
    'streamsim': (True, ['checks/stream_sut.c'], ['checks/streamsim.cpp']),
    'lcsim': (True, [], ['checks/lcsim.cpp']),
    'tasksim': (True, [], ['checks/tasksim.cpp']),
}


def build(harness, repo, verif, variant='plain'):
    cache = os.path.join(verif, '.cache')
    os.makedirs(cache, exist_ok=True)
    needs_lib, csrc, cxxsrc = HARNESS[harness]
    rh = repo_hash(repo)
    vh = verif_hash(verif)
    key = hashlib.sha256((rh + vh + variant + harness).encode()).hexdigest()[:16]
    d = os.path.join(cache, '%s-%s-%s' % (harness, variant, key))
    binary = os.path.join(d, harness)
    env = {}
    libdir = None
    if needs_lib:
        libdir, _ = build_libmir(repo, verif, variant)
        env['LD_LIBRARY_PATH'] = libdir
    if os.path.exists(binary):
        os.utime(d)
        return dict(binary=binary, hash=rh, env=env, libdir=libdir)
    tmp = d + '.tmp%d' % os.getpid()
    shutil.rmtree(tmp, ignore_errors=True)
    os.makedirs(tmp)
    cf = cflags(variant)
    inc = ['-I' + repo, '-I' + os.path.join(verif, 'checks'), '-I' + os.path.join(verif, 'sim'), '-I' + os.path.join(verif, 'prog')]
    cmds, objs = [], []
    for s in csrc:
        o = os.path.basename(s)[:-2] + '.o'
        cmds.append(['gcc'] + cf + ['-std=gnu11', '-fsigned-char', '-w'] + inc + ['-c', os.path.join(verif, s), '-o', o])
        objs.append(o)
    for s in cxxsrc:
        o = os.path.basename(s)[:-4] + '.o'
        cmds.append(['g++', '-std=c++17'] + cf + ['-Wall', '-Wno-misleading-indentation', '-Wno-unused-function'] + inc + ['-c', os.path.join(verif, s), '-o', o])
        objs.append(o)
    run_all(cmds, tmp)
    link = ['g++'] + (['-fsanitize=address'] if variant == 'asan' else []) + ['-o', harness] + objs
    if needs_lib:
        link += ['-rdynamic', '-L' + libdir, '-lmir', '-Wl,-rpath,' + libdir, '-ldl', '-lm', '-lpthread']
    run_all([link], tmp)
    publish(tmp, d)
    prune(cache, '%s-%s' % (harness, variant), 4)
    return dict(binary=binary, hash=rh, env=env, libdir=libdir)
