"""Per-property check specifications used by bin/check."""

CHECKS = {}

CHECKS['C19'] = dict(
    harness='adtsim', variant='plain', level='exploration', default_seed=1,
    tiers={
        # the first enum_count(enum_len) run indices enumerate all HTAB histories up to that length over the
        # alphabet {ins,rep,del,find} x keys{0,1,2} + clear under 3 hash functions; the rest are seeded random.
        'quick': dict(count=600000, enum_len=4, budget_s=240),
        'thorough': dict(count=12000000, enum_len=5, budget_s=1500),
    },
    rule=('run = one seeded operation history on one object kind (HTAB / 4 aliasable bitmaps / VARR / DLIST) with a '
          'seeded allocator behaviour (realloc always moves | moves on grow | shrinks in place; junk fill; gap); after every '
          'operation the return value and the full observable state are compared with std::map/std::set/std::vector. '
          'non-trivial = at least 3 executed ops AND at least one perturbation/probe fired in that run (realloc moved a live '
          'block, HTAB rebuild or insert with tombstones present, DLIST interior insert/remove); distinct = distinct hash of '
          '(knobs, op list) among the non-trivial runs, counted by the runner.'),
    probes=['htab_rebuild_with_tombstones', 'htab_insert_with_tombstones_present', 'bm_op_aliased_dst',
            'bm_dst_longer_than_sources', 'bm_range_whole_word', 'bm_range_crosses_word', 'bm_iter_first_bit_mid_word',
            'realloc_moved_live_block', 'htab_long_probe'],
    components_real=['mir-htab.h', 'mir-bitmap.h', 'mir-varr.h', 'mir-dlist.h', 'mir-alloc.h (all compiled from /repo working tree, -DNDEBUG)'],
    components_stubbed=['general allocator (simalloc: arena, ledger, poison, moving realloc)', 'hash/eq/free call-backs (harness-owned, counted)'],
    assumptions=['single client, no concurrency: this is the fault-free, single-party corner of the technique (DESIGN 5/C19)',
                 'preconditions of the headers are respected by the generator (no pop of an empty VARR, no bitmap_copy onto itself, no key outside int range)',
                 'seeded search samples histories; only HTAB histories up to enum_len over a 13-letter alphabet are enumerated completely'],
)
