"""Per-property check specifications used by bin/check."""

CHECKS = {}

CHECKS['C19'] = dict(
    harness='adtsim', variant='plain', level='exploration', default_seed=1,
    tiers={
        # the first enum_count(enum_len) run indices enumerate all HTAB histories up to that length over the
        # alphabet {ins,rep,del,find} x keys{0,1,2} + clear under 3 hash functions; the rest are seeded random.
        'quick': dict(count=600000, enum_len=4, budget_s=240),
        'thorough': dict(count=12000000, enum_len=5, budget_s=1500),
    },
    rule=('run = one seeded operation history on one object kind (HTAB / 4 aliasable bitmaps / VARR / DLIST) with a '
          'seeded allocator behaviour (realloc always moves | moves on grow | shrinks in place; junk fill; gap); after every '
          'operation the return value and the full observable state are compared with std::map/std::set/std::vector. '
          'non-trivial = at least 3 executed ops AND at least one perturbation/probe fired in that run (realloc moved a live '
          'block, HTAB rebuild or insert with tombstones present, DLIST interior insert/remove); distinct = distinct hash of '
          '(knobs, op list) among the non-trivial runs, counted by the runner.'),
    probes=['htab_rebuild_with_tombstones', 'htab_insert_with_tombstones_present', 'bm_op_aliased_dst',
            'bm_dst_longer_than_sources', 'bm_range_whole_word', 'bm_range_crosses_word', 'bm_iter_first_bit_mid_word',
            'realloc_moved_live_block', 'htab_long_probe'],
    components_real=['mir-htab.h', 'mir-bitmap.h', 'mir-varr.h', 'mir-dlist.h', 'mir-alloc.h (all compiled from /repo working tree, -DNDEBUG)'],
    components_stubbed=['general allocator (simalloc: arena, ledger, poison, moving realloc)', 'hash/eq/free call-backs (harness-owned, counted)'],
    assumptions=['single client, no concurrency: this is the fault-free, single-party corner of the technique (DESIGN 5/C19)',
                 'preconditions of the headers are respected by the generator (no pop of an empty VARR, no bitmap_copy onto itself, no key outside int range)',
                 'seeded search samples histories; only HTAB histories up to enum_len over a 13-letter alphabet are enumerated completely'],
)

CHECKS['C12'] = dict(
    harness='streamsim', variant='plain', level='fault_enumeration', default_seed=1,
    tiers={
        # first indices: every string over {a,b} up to length enum2 and over {a,b,c} up to length enum3, each with
        # *complete* single-position sweeps (truncate at every k, five alterations of every byte, every appended byte)
        'quick': dict(count=26000, enum2=9, enum3=5, pct_b=12, pct_big=6, budget_s=400),
        'thorough': dict(count=400000, enum2=13, enum3=8, pct_b=12, pct_big=8, budget_s=2400),
    },
    rule=('run = one plain input (explicit bytes or a deterministic part list: repeated byte / period-p / small-alphabet random / '
          'back-copies at chosen distances / >65536 distinct 4-grams; lengths biased to 0..9, 2046..2049, 2^18-1..2^18+1, multiples) '
          'encoded through simulator-owned reader/writer call-backs, then (a) decoded unmodified (lossless oracle), (b) decoded after '
          'faults attached to the run: truncate/extend/bit-flip/set/zero-range/duplicate/swap/splice of the stored stream, a format-aware crafted element (chosen literal length, reference length incl. 2^18, 2^28, 2^31, 2^32-k, offset incl. 0, 5-byte varint form) written over it, reader EOF or '
          'short read at a chosen call, or a complete sweep of one fault family over every position of the stream; struct reduce_data '
          'abuts a PROT_NONE guard page.  Level B runs do the same through MIR_write_with_func / MIR_read_with_func of real contexts. '
          'non-trivial = at least one fault actually fired (stream bytes differ or a call-back fault fired) or a sweep ran; distinct = '
          'distinct hash of (knobs, ops) among those.'),
    probes=['spans_2_buffers', 'spans_3_buffers', 'plain_len_exact_buffer_multiple', 'damage_in_prefix', 'damage_in_trailer',
            'damage_in_elements', 'accepted_equivalent', 'fault_reader_early_eof', 'fault_reader_short_read', 'fault_torn_write_splice', 'fault_injected_crafted_element',
            'mirbin_spans_2_buffers', 'mirbin_damaged_rejected', 'sweep_cases', 'compressible_input'],
    components_real=['mir-reduce.h (encoder, decoder)', 'mir-hash.h', 'mir.c MIR_write_with_func / MIR_read_with_func / MIR_scan_string / MIR_output (level B)'],
    components_stubbed=['byte store between writer and reader (in-memory disk with faults)', 'reader/writer call-backs', 'allocator (guard pages around struct reduce_data; simalloc arena for level-B contexts)', 'error call-back (longjmp = crash point)'],
    assumptions=['an altered stream that decodes, with success, to exactly the original plain bytes is another valid encoding of the same data (the trailer hashes the plain data) and is counted as accepted_equivalent, not flagged',
                 'out-of-bounds accesses are detected at page granularity past the end (or before the start) of struct reduce_data; accesses that stay inside the struct are in-bounds by definition',
                 'complete enumeration covers inputs over {a,b} up to enum2 bytes and {a,b,c} up to enum3 bytes with every single-position truncation / alteration / extension; larger inputs are sampled'],
)

_LC_REAL = ['mir.c (module creation by scan / binary read, load, link, inlining, simplification, code holders, output, write)', 'mir-interp.c', 'mir-gen.c + mir-gen-x86_64.c + mir-x86_64.c (thunks, wrappers, eager and lazy generation at -O0..-O3)', 'c2mir/c2mir.c (C front end on generated C)', 'mir-varr.h / mir-htab.h / mir-bitmap.h as used by the library', 'the CPU executing generated code', 'kernel mmap/mprotect under the simulated code allocator']
_LC_STUB = ['general allocator (simalloc arena: ledger, red zones, poison, moving realloc, junk fill)', 'code allocator (simcode: placement policy near/far/4GB-spread, real W^X windows, ledger)', 'libc allocation/mapping/clock calls made from library objects (link-time wrapped: libwrap)', 'externals called by MIR code (logged, may re-enter MIR)', 'import resolver call-back', 'error call-back (longjmp = crash point)', 'byte store for binary round trips', 'template program family with an independent C++ model (prog/dsl.hpp)']

CHECKS['C17'] = dict(
    harness='lcsim', variant='plain', level='exploration', default_seed=1,
    tiers={
        'quick': dict(count=12000, mode='C17', budget_s=400),
        'thorough': dict(count=400000, mode='C17', budget_s=2400),
    },
    rule=('run = one seeded error-free API history on a context created with MIR_init2(simalloc, simcode): modules of a generated '
          'template program created by MIR_scan_string / c2mir_compile of generated C / MIR_read of a stream written by a helper '
          'context, loaded and linked in dependency-closed steps with a per-step interface (none, interp, eager gen, lazy gen), '
          'explicit MIR_gen, calls through public addresses and MIR_interp (results and external-call log compared with the model), '
          'MIR_output / MIR_write, optimisation-level changes, then gen_finish / c2mir_finish / finish.  Every allocator, code-allocator and '
          'wrapped-libc call is checked against the ledger; allocator behaviour (realloc move policy, junk, gap) and code placement are '
          'seeded per run.  non-trivial = at least 3 ops executed AND (realloc moved a live block OR a code write window was opened); '
          'distinct = distinct hash of (knobs, program, ops) among those.'),
    probes=['realloc_moved_live_block', 'module_via_c2mir', 'module_via_binary_read', 'gen_lazy_on_first_call', 'gen_repeated',
            'link_with_3_pending_modules', 'ext_reentered_mir', 'ext_many_args_called', 'interp_after_generation', 'link_iface_none', 'contexts_finished'],
    components_real=_LC_REAL, components_stubbed=_LC_STUB,
    assumptions=['histories are error-free by construction (allocation failure is never injected: the statement excludes it)',
                 'programs come from one template family (prog/dsl.hpp); a crash of the generator that also occurs for the plain history scan/load/link(eager) of the same program is a program-level optimizer defect and is counted as a side finding, not a verdict',
                 'use-after-free is detected by poison audit (writes) and by crashes/wrong results (reads); the plain, not the ASan, build is used',
                 'the lazy basic-block interface is not part of C17 histories (its known conflict with MIR_interp is reported under C03)'],
)

CHECKS['C13'] = dict(
    harness='lcsim', variant='plain', level='exploration', default_seed=1,
    tiers={
        'quick': dict(count=40000, mode='C13', budget_s=300),
        'thorough': dict(count=1500000, mode='C13', budget_s=2400),
    },
    rule=('run = one seeded history over 2..7 module versions that export, import and redefine the function names f,g,h and the data items d1,d2 (every definition carries a '
          'unique salt; every module has an entry function that calls its imports and folds the results): MIR_scan_string + MIR_load_module '
          'in a seeded order, MIR_load_external(name, one of 8 native functions), MIR_set_func_redef_permission, MIR_link with interface '
          'none/interp/eager gen/lazy gen and with or without a resolver call-back that knows a per-run subset of the names, and observations '
          '(entry functions called through their address and through MIR_interp).  Reference model: name -> latest definition, pending-module '
          'queue, per-(module, import) binding fixed when its link step completes; expected MIR_repeated_decl_error / MIR_undeclared_op_ref_error. '
          'non-trivial = at least 3 ops executed AND a link step ran with generated/interpreted code observed or an expected error verified; '
          'distinct = distinct hash of (knobs, program, ops).'),
    probes=['c13_data_redefined', 'c13_export_over_export', 'c13_external_over_export', 'c13_export_over_external', 'c13_observe_old_binding_after_redefinition',
            'resolver_consulted', 'expected_error_reported', 'link_with_3_pending_modules', 'link_without_interface_keeps_modules_pending', 'dont_care_error', 'relink_with_changed_binding'],
    components_real=_LC_REAL, components_stubbed=_LC_STUB,
    assumptions=['declared don\'t-care 1: the first exported function loaded after an external of the same name without redefinition permission (the code rejects it, the statement is silent)',
                 'known finding (open): a module left queued by MIR_link(ctx, NULL, ..) is linked again by the next step; if a name it imports was redefined in between, direct calls already inlined by the first step keep the old definition (everything else is re-bound and is checked)',
                 'after any error call-back the history ends (MIR promises nothing about a context after an error)',
                 'single client, no concurrency: the schedule is the order of load / register / link events'],
)

CHECKS['C16'] = dict(
    harness='lcsim', variant='plain', level='exploration', default_seed=1,
    tiers={
        'quick': dict(count=12000, mode='C16', budget_s=400),
        'thorough': dict(count=400000, mode='C16', budget_s=2400),
    },
    rule=('run = one seeded history on a generated multi-module template program: modules created (scan / c2mir / binary read), loaded and '
          'linked in dependency-closed steps with interface interp / eager gen / lazy gen per step (so later steps call and inline functions '
          'that earlier steps have already generated), explicit MIR_gen in any order and repeated, MIR_gen_set_optimize_level between events, '
          'generator sessions finished and re-initialised, calls through public addresses (which trigger lazy generation) and MIR_interp before '
          'and after generation.  Oracles: MIR_output_item text of every function an event enters is byte-identical (labels renamed by first '
          'appearance) before and after the event; MIR_gen returns the same address every time and it equals the item address; public addresses '
          'never change; every result and external-call log equals the program model, also for modules linked later that call/inline generated '
          'functions.  non-trivial = at least 3 ops AND a code write window was opened or a live block moved; distinct = hash of (knobs, program, ops).'),
    probes=['gen_explicit', 'gen_repeated', 'gen_lazy_on_first_call', 'interp_after_generation', 'text_compared_equal', 'opt_level_0', 'opt_level_1',
            'opt_level_2', 'opt_level_3', 'link_with_3_pending_modules', 'module_via_c2mir', 'ext_reentered_mir', 'code_multi_page_write_windows'],
    components_real=_LC_REAL, components_stubbed=_LC_STUB,
    assumptions=['whole-function generation only (the lazy basic-block interface is outside the statement)',
                 'for eager generation at link the "before" text does not exist in the API; the text oracle covers explicit and lazy generation and interpretation, eager generation is covered by the behavioural oracles (results, later inlining)',
                 'known finding (open): a function with an lref label table cannot be run by both engines (shared table); programs with lref tables keep to one engine family except in probing runs',
                 'program-level generator defects (the plain history of the same program fails the same way) are side findings, not verdicts'],
)

CHECKS['C03'] = dict(
    harness='lcsim', variant='plain', level='exploration', default_seed=1,
    tiers={
        'quick': dict(count=12000, mode='C03', budget_s=400),
        'thorough': dict(count=400000, mode='C03', budget_s=2400),
    },
    rule=('run = one seeded history on a generated multi-module template program (recursion and mutual recursion across modules, indirect calls '
          'through ref data, computed gotos through laddr/jmpi and lref tables, externals that re-enter MIR through another function\'s public '
          'address): each link step picks its own interface among interp / eager gen / lazy gen / lazy basic-block gen, so one program mixes '
          'them; clients call public addresses taken once and reused, and MIR_interp, in a seeded order (first call may arrive via recursion, '
          'call-back or indirect call); code placement near / packed far / 4GB-spread / alternating forces both thunk and call forms. Oracle: '
          'every result and the global external-call log equal the program model (five-way agreement by construction), public addresses never '
          'change, never a crash.  non-trivial and distinct as for C16.'),
    probes=['link_iface_interp', 'link_iface_gen', 'link_iface_lazy', 'link_iface_lazy_bb', 'ext_reentered_mir', 'gen_lazy_on_first_call',
            'interp_after_generation', 'address_calls', 'interp_runs', 'code_multi_page_write_windows'],
    components_real=_LC_REAL, components_stubbed=_LC_STUB,
    assumptions=['programs come from one template family: the check decides the history / configuration / placement dimension of the statement, not the program dimension (a defect that the plain history of the same program shows too is a side finding)',
                 'known findings (open): lref label tables are shared between interpreter and generator; lazy-bb stubs and the interpreter share func_item->data; lazy-bb thunks reach only +-2GB; the lazy-bb generator consumes the MIR of the functions it enters',
                 'the public address of a function is taken after the link step that sets its interface (MIR assigns it at load)'],
)

CHECKS['C18'] = dict(
    harness='tasksim', variant='plain', level='exploration', default_seed=1,
    tiers={
        'quick': dict(count=900, budget_s=500),
        'thorough': dict(count=30000, budget_s=3000),
    },
    rule=('run = 2..4 cooperative tasks (ucontext coroutines, one OS thread), each with its own MIR context, arena, code region, stack and '
          'simulated clock at fixed addresses, each executing a seeded lcsim history (create modules by scan / c2mir / binary read, load, link '
          'with mixed interfaces, generate, execute, output, write, finish).  The simulator picks the running task at every seam event (allocator, '
          'code allocator, external call) under a seeded policy (uniform, long slices, round robin, starve one, sequential) with faults stall / '
          'abandon / clock jump; a switched-out task\'s memory is PROT_NONE; libmir.so\'s writable image is write-protected and every write traps. '
          'Each task first runs alone in a pristine forked process; then all run interleaved in another pristine process. '
          'non-trivial = at least 3 context switches happened; distinct = hash of (policy knobs, task plans).'),
    probes=['context_switches', 'yield_points', 'tasks_equal_to_solo', 'fault_task_abandoned', 'fault_task_stalled', 'fault_clock_jump',
            'module_via_c2mir', 'gen_lazy_on_first_call', 'contexts_finished'],
    components_real=_LC_REAL + ['every context of a run lives in one process image: library statics are really shared'],
    components_stubbed=_LC_STUB + ['threads (cooperative coroutines on one OS thread; the scheduler decides every switch)', 'thread scheduling (seeded policy, recorded in the plan)', 'per-task simulated clock'],
    assumptions=['switches happen only at seam events (allocator / code-allocator / external calls): instruction-granular pre-emption is not simulated; conflicts on library statics are found by write traps whatever the interleaving',
                 'only writes to the library image are trapped; a static written by one context and merely read by others is reported as a probe (static_written_<symbol>), and caught as a violation only through its effects (solo equivalence, foreign memory access, crash)',
                 'a task whose own history fails when it runs alone is a side finding (not interference)',
                 'thread-local state: MIR uses none; errno is saved and restored per task'],
)
