// Template program family: a tiny typed DSL over i64 locals, its emitters (MIR text, C) and an independent
// executable model (C++ evaluator).  The family is deliberately small: it exists to give histories something
// observable to carry (which definition ran, what was computed, which externals were called in which order).
// It shares no code with MIR.
//
// program  := {"mods":[module...]}
// module   := {"name":"m0","funcs":[func...]}
// func     := {"name":"f","salt":S,"na":k,"nd":j,"fuel":0|1,"exp":0|1,"body":[stmt...]}   result i64
// operand  := integer constant | "vN" local | "aN" i64 parameter
// stmt     := ["op",name,dst,s1,s2] | ["if",cmp,s1,s2,[then],[else]] | ["loop",n,[body]]
//           | ["call",dst,fname,[args]] | ["icall",dst,fname,[args]] | ["ext",dst,tag,s]
//           | ["sw",s,[[case]...]] | ["jt",s,[[case]...]] | ["lt",s,[[case]...]]
//           | ["mem",dst,s,type,disp] | ["retif",cmp,s1,s2,s] | ["ret",s]
#pragma once
#include <cstdarg>
#include <cstdint>
#include <cstring>
#include <map>
#include <set>
#include <string>
#include <vector>
#include <functional>
#include "../sim/json.hpp"
#include "../sim/rng.hpp"

namespace prog {
using sim::Json;
using sim::Rng;

static const int NLOC = 6;
static const uint64_t RETMUL = 1000003ULL;

// ------------------------------------------------------------------------------------------------ helpers
static inline std::string S(const char *f, ...) {
  char b[512]; va_list ap; va_start(ap, f); vsnprintf(b, sizeof b, f, ap); va_end(ap); return b;
}
struct FuncInfo { std::string name; int na = 0, nd = 0; bool fuel = false; bool cgoto = false; int gv = 0; std::string ps; char rt = 'q'; };
// Parameter kinds ("ps", one letter per parameter in declaration order; integer parameters are numbered a0.. and
// floating-point ones d0.. in order of appearance):  q i64, i i32, u u32, b i8, B u8, w i16, W u16;  d double, f float, l long double.
// Result kind "rt": q i64 (default), d, f, l -- the i64 result is masked to what the type holds exactly and converted.
// Block (by-value aggregate) kinds take an integer argument v like an integer parameter; the caller spreads it over the
// fields (field j holds v + j; a double field holds ((v + j) & 0xffff) converted), the callee folds them back:
// a_k = sum (j + 1) * field j.   S {i64} T {i64,i64} Q {d} P {d,d} M {i64,d} N {d,i64} G {i64 x3} H {i64 x4} (G, H: passed in memory)
static inline bool int_kind(char c) { return c != 'd' && c != 'f' && c != 'l'; }
struct BlkInfo { const char *mir; int size; const char *fields; };
static inline const BlkInfo *blk_info(char c) {
  static const BlkInfo S_ = {"blk1", 8, "q"}, T_ = {"blk1", 16, "qq"}, Q_ = {"blk2", 8, "d"}, P_ = {"blk2", 16, "dd"}, M_ = {"blk3", 16, "qd"}, N_ = {"blk4", 16, "dq"}, G_ = {"blk", 24, "qqq"}, H_ = {"blk", 32, "qqqq"};
  switch (c) { case 'S': return &S_; case 'T': return &T_; case 'Q': return &Q_; case 'P': return &P_; case 'M': return &M_; case 'N': return &N_; case 'G': return &G_; case 'H': return &H_; default: return nullptr; }
}
static inline bool blk_kind(char c) { return blk_info(c) != nullptr; }
static inline bool has_blk(const std::string &ps) { for (char c : ps) if (blk_kind(c)) return true; return false; }
static inline uint64_t blk_field(char fk, int64_t v, int j) { uint64_t raw = (uint64_t) v + (uint64_t) j; return fk == 'q' ? raw : (raw & 0xffff); }
static inline std::string default_ps(int na, int nd) { return std::string((size_t) na, 'q') + std::string((size_t) nd, 'd'); }
static inline std::string ps_of(const Json &f) { std::string p = f.gets("ps", ""); return p.empty() ? default_ps((int) f.geti("na"), (int) f.geti("nd")) : p; }
static inline char rt_of(const Json &f) { std::string p = f.gets("rt", ""); return p.empty() ? 'q' : p[0]; }
static inline const char *mir_ty(char c) { switch (c) { case 'i': return "i32"; case 'u': return "u32"; case 'b': return "i8"; case 'B': return "u8"; case 'w': return "i16"; case 'W': return "u16"; case 'd': return "d"; case 'f': return "f"; case 'l': return "ld"; default: return "i64"; } }
static inline const char *c_ty(char c) { switch (c) { case 'S': return "struct dsl_bS"; case 'T': return "struct dsl_bT"; case 'P': return "struct dsl_bP"; case 'M': return "struct dsl_bM"; case 'N': return "struct dsl_bN"; case 'G': return "struct dsl_bG"; case 'Q': return "struct dsl_bQ"; case 'H': return "struct dsl_bH"; case 'i': return "int"; case 'u': return "unsigned int"; case 'b': return "signed char"; case 'B': return "unsigned char"; case 'w': return "short"; case 'W': return "unsigned short"; case 'd': return "double"; case 'f': return "float"; case 'l': return "long double"; default: return "long long"; } }
static inline int64_t narrow(char c, int64_t v) {
  if (const BlkInfo *b = blk_info(c)) { uint64_t r = 0; for (int j = 0; b->fields[j]; j++) r += (uint64_t) (j + 1) * blk_field(b->fields[j], v, j); return (int64_t) r; }
  switch (c) { case 'i': return (int32_t) v; case 'u': return (int64_t) (uint32_t) v; case 'b': return (int8_t) v; case 'B': return (uint8_t) v; case 'w': return (int16_t) v; case 'W': return (uint16_t) v; default: return v; } }
static inline uint64_t rt_mask(char rt) { return rt == 'd' ? (1ull << 48) - 1 : rt == 'f' ? (1ull << 20) - 1 : rt == 'l' ? (1ull << 62) - 1 : ~0ull; }
// the mixed-kind external `extm` (integers beyond the 6 registers, floats, doubles and long doubles on the stack)
static inline uint64_t extm_value(int64_t s) {
  uint64_t m = (uint64_t) s & 4095, u = (uint64_t) s;
  return u * 3 + m * 5 + m * 7 + (uint64_t) (int64_t) (int32_t) s * 11 + m * 13 + (uint64_t) (uint8_t) s * 17 + m * 19 + u * 23 + m * 29 + (uint64_t) (int64_t) (int16_t) s * 31 + u * 37 + (uint64_t) (uint32_t) s * 41 + u * 43;
}

// visit every nested statement block of a statement
template <class F> static inline void for_each_block(const Json &st, F fn) {
  if (st.k != Json::Arr || st.size() == 0 || st[0].k != Json::Str) return;
  const std::string &k = st[0].s;
  if ((k == "if" || k == "fif") && st.size() > 5) { fn(st[4]); fn(st[5]); }
  else if (k == "loop" && st.size() > 2) fn(st[2]);
  else if ((k == "sw" || k == "jt" || k == "lt" || k == "ld") && st.size() > 2) for (auto &c : st[2].a) fn(c);
}
template <class F> static inline void for_each_block_mut(Json &st, F fn) {
  if (st.k != Json::Arr || st.size() == 0 || st[0].k != Json::Str) return;
  const std::string k = st[0].s;
  if ((k == "if" || k == "fif") && st.size() > 5) { fn(st[4]); fn(st[5]); }
  else if (k == "loop" && st.size() > 2) fn(st[2]);
  else if ((k == "sw" || k == "jt" || k == "lt" || k == "ld") && st.size() > 2) for (auto &c : st[2].a) fn(c);
}
template <class F> static inline void walk(const Json &body, F fn) {  // fn(stmt) for every statement, depth first
  for (auto &st : body.a) { fn(st); for_each_block(st, [&](const Json &b) { walk(b, fn); }); }
}
// result kind Q: two i64 results (value, value ^ 23130); callers fold the pair back into the value, so the model is unchanged
static inline std::string mir_res(char rt) { return rt == 'Q' ? std::string("i64, i64") : std::string(mir_ty(rt)); }
static inline bool prog_has_two_results(const Json &prog) { for (auto &m : prog.at("mods").a) for (auto &f : m.at("funcs").a) if (rt_of(f) == 'Q') return true; return false; }
static inline std::string mir_param(char c, const std::string &name) { if (const BlkInfo *b = blk_info(c)) return S("%s:%d(%s)", b->mir, b->size, name.c_str()); return std::string(mir_ty(c)) + ":" + name; }
static const char *C_BLK_DECLS = "struct dsl_bS { long long x; }; struct dsl_bT { long long x, y; }; struct dsl_bP { double x, y; }; struct dsl_bM { long long x; double y; }; struct dsl_bN { double x; long long y; }; struct dsl_bG { long long x, y, z; }; struct dsl_bQ { double x; }; struct dsl_bH { long long x, y, z, w; };\n";
static inline std::string proto_name(const std::string &ps, char rt) { return std::string("p_") + rt + "_" + ps; }

// ------------------------------------------------------------------------------------------------ MIR text emitter
struct MirEmitter {
  std::string out; std::vector<std::string> pend; int lab = 0; const Json *fn = nullptr; std::string fname;
  std::vector<std::pair<std::string, std::vector<std::string>>> lrefs;  // table name -> labels
  std::set<std::string> called, icalled; std::set<std::pair<std::string, char>> protos; bool uses_ext = false, uses_mem = false, uses_extm = false, uses_blk = false; std::set<int> extn_sizes; std::set<std::string> data_used;
  const std::map<std::string, FuncInfo> *sigs = nullptr;
  int loop_depth = 0; bool use_inline = false;

  std::string newlab() { return S("lb_%s_%d", fname.c_str(), lab++); }  // label names are module-scoped in MIR text
  void label(const std::string &l) { pend.push_back(l); }
  void insn(const std::string &s) {
    if (pend.empty()) { out += "\t" + s + "\n"; return; }
    // MIR text allows one label per line: extra labels are attached to no-op moves
    for (size_t i = 0; i + 1 < pend.size(); i++) out += pend[i] + ":\tmov t2, t2\n";
    out += pend.back() + ":\t" + s + "\n"; pend.clear();
  }
  static std::string opnd(const Json &o) { return o.k == Json::Str ? o.s : std::to_string((long long) o.i); }
  static std::string br(const std::string &c) { return c == "ult" ? "ublt" : c == "ugt" ? "ubgt" : "b" + c; }

  void stmts(const Json &body) { for (auto &st : body.a) stmt(st); }
  void ret_block(const Json &s) {
    insn("mul t2, " + opnd(s) + ", " + std::to_string(RETMUL));
    insn("add t2, t2, " + std::to_string((long long) fn->geti("salt")));
    char rt = rt_of(*fn);
    if (rt == 'q') { insn("ret t2"); return; }
    if (rt == 'Q') { insn("xor t3, t2, 23130"); insn("ret t2, t3"); return; }
    insn("and t2, t2, " + std::to_string((long long) rt_mask(rt)));
    insn(rt == 'd' ? "i2d rd, t2" : rt == 'f' ? "i2f rf, t2" : "i2ld rl, t2");
    insn(rt == 'd' ? "ret rd" : rt == 'f' ? "ret rf" : "ret rl");
  }
  void emit_call(const std::string &target, const std::string &dst, const std::string &callee, const Json &args) {
    auto it = sigs->find(callee); const std::string ps = it->second.ps.empty() ? default_ps(it->second.na, it->second.nd) : it->second.ps; char rt = it->second.rt;  // (hand-made signatures may carry counts only)
    protos.insert({ps, rt});
    std::string s = "call " + proto_name(ps, rt) + ", " + target + ", " + (rt == 'q' ? dst : rt == 'Q' ? dst + ", t3" : rt == 'd' ? std::string("rd") : rt == 'f' ? std::string("rf") : std::string("rl"));
    int ai = 0, di = 0, bi = 0;
    for (char c : ps) {
      if (const BlkInfo *b = blk_info(c)) {  // build the aggregate in this function's block area and pass it by value
        std::string v = ai < (int) args.size() ? opnd(args[ai]) : std::string("0"), pb = S("pb%d", bi); ai++; uses_blk = true;
        insn("add " + pb + ", bbuf, " + std::to_string(32 * bi)); bi++;
        for (int j = 0; b->fields[j]; j++) {
          insn("mov t1, " + v); insn("add t1, t1, " + std::to_string(j));
          if (b->fields[j] == 'q') insn(S("mov i64:%d(%s), t1", 8 * j, pb.c_str()));
          else { insn("and t1, t1, 65535"); insn("i2d fd0, t1"); insn(S("dmov d:%d(%s), fd0", 8 * j, pb.c_str())); }
        }
        s += ", " + mir_param(c, pb);
      } else if (int_kind(c)) { s += ", " + (ai < (int) args.size() ? opnd(args[ai]) : std::string("0")); ai++; }
      else { s += S(", %d.0%s", 2 + di, c == 'f' ? "f" : c == 'l' ? "l" : ""); di++; }
    }
    insn(s);
    if (rt == 'Q') { insn("xor t3, t3, " + dst); insn("xor t3, t3, 23130"); insn("mul t3, t3, 3"); insn("add " + dst + ", " + dst + ", t3"); }  // 0 when the second result is the first ^ 23130
    else if (rt != 'q') insn((rt == 'd' ? "d2i " : rt == 'f' ? "f2i " : "ld2i ") + dst + (rt == 'd' ? ", rd" : rt == 'f' ? ", rf" : ", rl"));
  }
  // targets of computed gotos start with an external call: blocks that the optimizer can empty completely make the
  // generated laddr/jmpi code jump to 0 at the pinned commit (a program-level generator defect, see DESIGN)
  void cases(const Json &cs, const std::vector<std::string> &labs, const std::string &end, bool cgoto) {
    for (size_t i = 0; i < cs.size(); i++) {
      label(labs[i]);
      if (cgoto) insn("call p_ext, ext, t1, " + std::to_string(20 + i) + ", 0"); else insn("mov t2, t2");
      stmts(cs[i]); insn("jmp " + end);
    }
    label(end);
  }
  void stmt(const Json &st) {
    const std::string &k = st[0].s;
    if (k == "op") {
      const std::string &o = st[1].s; std::string d = opnd(st[2]), a = opnd(st[3]), b = opnd(st[4]);
      if (o == "adds" || o == "subs" || o == "muls") { insn(o + " t0, " + a + ", " + b); insn("ext32 " + d + ", t0"); }
      else if (o == "uadds") { insn("adds t0, " + a + ", " + b); insn("uext32 " + d + ", t0"); }
      else insn(o + " " + d + ", " + a + ", " + b);
    } else if (k == "if") {
      std::string lt = newlab(), le = newlab();
      insn(br(st[1].s) + " " + lt + ", " + opnd(st[2]) + ", " + opnd(st[3]));
      stmts(st[5]); insn("jmp " + le); label(lt); insn("mov t2, t2"); stmts(st[4]); label(le);
    } else if (k == "fif") {  // floating-point compare-and-branch on converted integers
      std::string lt = newlab(), le = newlab();
      insn("i2d fd0, " + opnd(st[2])); insn("i2d fd1, " + opnd(st[3]));
      insn("db" + st[1].s + " " + lt + ", fd0, fd1");
      stmts(st[5]); insn("jmp " + le); label(lt); insn("mov t2, t2"); stmts(st[4]); label(le);
    } else if (k == "loop") {
      std::string lc = S("lc%d", loop_depth), lh = newlab(), le = newlab(); loop_depth++;
      insn("mov " + lc + ", 0"); label(lh); insn("bge " + le + ", " + lc + ", " + opnd(st[1]));
      stmts(st[2]); insn("add " + lc + ", " + lc + ", 1"); insn("jmp " + lh); label(le); loop_depth--;
    } else if (k == "call") { called.insert(st[2].s); emit_call(st[2].s, opnd(st[1]), st[2].s, st[3]); }
    else if (k == "icall") {
      icalled.insert(st[2].s);
      insn("mov t0, r_" + st[2].s); insn("mov t0, i64:(t0)"); emit_call("t0", opnd(st[1]), st[2].s, st[3]);
    } else if (k == "extm") {
      uses_extm = true; std::string v = opnd(st[2]);
      insn("and t1, " + v + ", 4095"); insn("i2f ff0, t1"); insn("i2ld fl0, t1"); insn("i2d fd0, t1");
      insn("call p_extm, extm, " + opnd(st[1]) + ", " + v + ", ff0, fl0, " + v + ", fd0, " + v + ", fl0, " + v + ", ff0, " + v + ", " + v + ", " + v + ", " + v);
    } else if (k == "ext") { uses_ext = true; insn(std::string(use_inline ? "inline" : "call") + " p_ext, ext, " + opnd(st[1]) + ", " + opnd(st[2]) + ", " + opnd(st[3])); }  // an inline insn of an external stays an inline insn
    else if (k == "fcmp") {  // a function has one address: the value 'mov r, f' yields equals the entry of a ref data item
      icalled.insert(st[2].s); std::string l1 = newlab(), l2 = newlab();
      insn("mov t0, " + st[2].s); insn("mov t1, r_" + st[2].s); insn("mov t1, i64:(t1)");
      insn("mov " + opnd(st[1]) + ", 1"); insn("beq " + l1 + ", t0, t1"); insn("mov " + opnd(st[1]) + ", 0"); label(l1);
      insn("mov t1, " + st[2].s); insn("beq " + l2 + ", t0, t1"); insn("mov " + opnd(st[1]) + ", 2"); label(l2); insn("mov t2, t2");
    }
    else if (k == "ldata") { data_used.insert(st[2].s); insn("mov t0, " + st[2].s); insn("mov " + opnd(st[1]) + ", i64:(t0)"); }  // first i64 of a data item (own or imported)
    else if (k == "extn") {  // external with many integer arguments (first = count): long argument lists of the FFI / stack-passing paths
      int n = (int) st[2].num(); extn_sizes.insert(n);
      std::string s2 = S("call p_extn_%d, extn, ", n) + opnd(st[1]) + ", " + std::to_string(n);
      for (int i = 1; i <= n; i++) { if (i <= 3) { insn(S("add t1, ", 0) + opnd(st[3]) + ", " + std::to_string(i)); insn(S("mov x%d, t1", i)); s2 += S(", x%d", i); } else s2 += ", " + std::to_string(i * 7); }
      insn(s2);
    }
    else if (k == "sw" || k == "jt" || k == "lt" || k == "ld") {
      const Json &cs = st[2]; size_t n = cs.size(); std::vector<std::string> labs; for (size_t i = 0; i < n; i++) labs.push_back(newlab());
      std::string end = newlab();
      if (k == "sw") insn("umod t0, " + opnd(st[1]) + ", " + std::to_string(n));
      else {  // computed gotos get a selector the optimizer cannot fold: it comes back from the external (tag 9)
        uses_ext = true; insn("call p_ext, ext, t0, 9, " + opnd(st[1])); insn("umod t0, t0, " + std::to_string(n));
      }
      if (k == "sw") { std::string s = "switch t0"; for (auto &l : labs) s += ", " + l; insn(s); }
      else if (k == "jt") {
        insn("laddr p, " + labs[0]);
        for (size_t i = 1; i < n; i++) { std::string sk = newlab(); insn("bne " + sk + ", t0, " + std::to_string(i)); insn("laddr p, " + labs[i]); label(sk); }
        insn("jmpi p");
      } else if (k == "lt") {
        std::string tb = S("tb_%s_%d", fname.c_str(), (int) lrefs.size()); lrefs.push_back({tb, labs});
        insn("mov p, " + tb); insn("lsh t1, t0, 3"); insn("add p, p, t1"); insn("mov p, i64:(p)"); insn("jmpi p");
      } else if (fn->geti("salt") & 1) {  // "ld", anchored: differences to a label that nothing else references (lref Li, A); target = &L0 + (Li - A) - (L0 - A)
        std::string anchor = newlab(); label(anchor); insn("mov t2, t2");
        std::string tb = S("ta_%s_%d", fname.c_str(), (int) lrefs.size()); std::vector<std::string> v; v.push_back(anchor); for (auto &l : labs) v.push_back(l); lrefs.push_back({tb, v});
        insn("mov t1, " + tb); insn("lsh t0, t0, 3"); insn("add t1, t1, t0"); insn("mov t1, i64:(t1)"); insn("mov p, " + tb); insn("mov p, i64:(p)"); insn("sub t1, t1, p");
        insn("laddr p, " + labs[0]); insn("add p, p, t1"); insn("jmpi p");
      } else {  // "ld": table of label differences (lref Li, L0) added to the address of L0
        std::string tb = S("td_%s_%d", fname.c_str(), (int) lrefs.size()); lrefs.push_back({tb, labs});
        insn("mov t1, " + tb); insn("lsh t0, t0, 3"); insn("add t1, t1, t0"); insn("mov t1, i64:(t1)"); insn("laddr p, " + labs[0]); insn("add p, p, t1"); insn("jmpi p");
      }
      cases(cs, labs, end, k != "sw");  // (lt and ld keep their tables in lref items placed after the function)
    } else if (k == "mem") {
      uses_mem = true; std::string ty = st[3].s; std::string disp = std::to_string((long long) st[4].num());
      // the value is narrowed explicitly first: store-to-load forwarding of an un-narrowed value is a program-level
      // generator matter (C01/C02 territory), not something histories should trip over
      std::string src = opnd(st[2]);
      if (ty != "i64") { insn(std::string(ty[0] == 'u' ? "uext" : "ext") + ty.substr(1) + " t1, " + src); src = "t1"; }
      insn("mov " + ty + ":" + disp + "(buf), " + src); insn("mov " + opnd(st[1]) + ", " + ty + ":" + disp + "(buf)");
    } else if (k == "retif") {
      std::string ld = newlab(), ls = newlab();
      insn(br(st[1].s) + " " + ld + ", " + opnd(st[2]) + ", " + opnd(st[3])); insn("jmp " + ls); label(ld); ret_block(st[4]); label(ls);
    } else if (k == "ret") ret_block(st[1]);
  }
  std::string func(const Json &f) {
    fn = &f; fname = f.gets("name"); out.clear(); pend.clear(); lab = 0; loop_depth = 0; uses_mem = false; uses_blk = false;
    std::string ps = ps_of(f); char rt = rt_of(f);
    std::string head = fname + ":\tfunc " + mir_res(rt);
    { int ai = 0, di = 0; for (char c : ps) { if (int_kind(c)) head += ", " + mir_param(c, S("a%d", ai++)); else head += S(", %s:d%d", mir_ty(c), di++); } }
    stmts(f.at("body"));
    if (!pend.empty()) ret_block(Json(0));
    std::string body_txt = out; out.clear();
    for (int i = 0; i < NLOC; i++) insn(S("mov v%d, 0", i));
    insn("mov t2, 0");
    if (uses_mem) insn("alloca buf, 64");
    if (uses_blk) insn("alloca bbuf, 128");
    { int ai = 0; for (char c : ps) { if (const BlkInfo *b = blk_info(c)) {  // the parameter variable holds the address of the copy: fold the fields into its value
        std::string a = S("a%d", ai); insn("mov t0, 0");
        for (int j = 0; b->fields[j]; j++) { if (b->fields[j] == 'q') insn(S("mov t1, i64:%d(%s)", 8 * j, a.c_str())); else { insn(S("dmov fd0, d:%d(%s)", 8 * j, a.c_str())); insn("d2i t1, fd0"); } insn("mul t1, t1, " + std::to_string(j + 1)); insn("add t0, t0, t1"); }
        insn("mov " + a + ", t0"); }
      if (int_kind(c)) ai++; } }
    { int di = 0; for (char c : ps) if (!int_kind(c)) { insn(S("%s t0, d%d", c == 'd' ? "d2i" : c == 'f' ? "f2i" : "ld2i", di++)); insn("add v0, v0, t0"); } }
    if (f.geti("fuel")) { std::string ls = newlab(); insn("bgt " + ls + ", a0, 0"); ret_block(Json(7)); label(ls); insn("mov t2, t2"); }
    std::string pro = out; out.clear();
    if (f.geti("gv")) { head += "\n\tglobal i64:gvr:r8"; pro = "\tmov gvr, " + std::to_string((long long) f.geti("gv")) + "\n" + pro + "\tadd v0, v0, gvr\n"; }
    return head + "\n\tlocal i64:x1, i64:x2, i64:x3, d:fd0, d:fd1, f:ff0, ld:fl0, d:rd, f:rf, ld:rl, i64:v0, i64:v1, i64:v2, i64:v3, i64:v4, i64:v5, i64:t0, i64:t1, i64:t2, i64:t3, i64:p, i64:buf, i64:bbuf, i64:pb0, i64:pb1, i64:pb2, i64:lc0, i64:lc1, i64:lc2\n" + pro + body_txt + "\tendfunc\n";
  }
  // whole module; `all` maps every function name of the *program* to its signature
  std::string module(const Json &m, const std::map<std::string, FuncInfo> &all) {
    sigs = &all; use_inline = m.geti("inl", 0) != 0; called.clear(); icalled.clear(); protos.clear(); lrefs.clear(); uses_ext = false; uses_extm = false; extn_sizes.clear(); data_used.clear();
    std::set<std::string> defined; for (auto &f : m.at("funcs").a) defined.insert(f.gets("name"));
    std::string funcs_txt; std::vector<std::pair<std::string, std::vector<std::string>>> all_lrefs;
    std::vector<std::string> ftxt; std::vector<std::set<std::string>> fcalls;
    for (auto &f : m.at("funcs").a) { lrefs.clear(); std::string t = func(f);
      { std::set<std::string> mine; walk(f.at("body"), [&](const Json &st) { if (st[0].s == "call") mine.insert(st[2].s); }); fcalls.push_back(mine); } for (auto &l : lrefs) { bool diff = l.first.compare(0, 3, "td_") == 0, anch = l.first.compare(0, 3, "ta_") == 0; std::string sfx = diff || anch ? ", " + l.second[0] : std::string(); size_t first = anch ? 1 : 0;
        t += l.first + ":\tlref " + l.second[first] + sfx + "\n"; for (size_t i = first + 1; i < l.second.size(); i++) t += "\tlref " + l.second[i] + sfx + "\n"; all_lrefs.push_back(l); } ftxt.push_back(t); }
    std::string r = m.gets("name") + ":\tmodule\n";
    bool fwd_first = m.geti("fwd_first", 0) != 0;  // declaration order forward -> export -> definition
    bool rev = m.geti("rev", 0) != 0;               // functions are defined in reverse order: a callee defined before its caller is referenced directly
    size_t nf = m.at("funcs").size(); std::vector<size_t> order; for (size_t i = 0; i < nf; i++) order.push_back(rev ? nf - 1 - i : i);
    std::set<std::string> need_fwd(icalled.begin(), icalled.end());   // ref data items precede the functions
    { std::set<std::string> defined_so_far;
      for (size_t oi : order) { const std::string &me_name = m.at("funcs")[oi].gets("name"); for (auto &c : fcalls[oi]) if (defined.count(c) && !defined_so_far.count(c)) need_fwd.insert(c); defined_so_far.insert(me_name); } }
    if (fwd_first) for (auto &f : m.at("funcs").a) if (need_fwd.count(f.gets("name"))) r += "\tforward " + f.gets("name") + "\n";
    for (auto &f : m.at("funcs").a) if (f.geti("exp", 1)) r += "\texport " + f.gets("name") + "\n";
    std::set<std::string> own_data;
    if (const Json *dj = m.find("data")) for (auto &d : dj->a) { own_data.insert(d.gets("name")); if (d.geti("exp", 1)) r += "\texport " + d.gets("name") + "\n"; }
    for (auto &d : data_used) if (!own_data.count(d)) r += "\timport " + d + "\n";
    std::set<std::string> imports; for (auto &c : called) if (!defined.count(c)) imports.insert(c); for (auto &c : icalled) if (!defined.count(c)) imports.insert(c);
    if (uses_ext) imports.insert("ext");
    if (!extn_sizes.empty()) imports.insert("extn");
    if (uses_extm) imports.insert("extm");
    for (auto &i : imports) r += "\timport " + i + "\n";
    if (!fwd_first) for (auto &f : m.at("funcs").a) if (need_fwd.count(f.gets("name"))) r += "\tforward " + f.gets("name") + "\n";
    for (auto &l : all_lrefs) r += "\tforward " + l.first + "\n";
    for (auto &p : protos) { r += proto_name(p.first, p.second) + ":\tproto " + mir_res(p.second); int ai = 0, di = 0; for (char c : p.first) { if (int_kind(c)) r += ", " + mir_param(c, S("a%d", ai++)); else r += S(", %s:d%d", mir_ty(c), di++); } r += "\n"; }
    if (uses_extm) r += "p_extm:\tproto i64, i64:t, f:x, ld:y, i32:n, d:z, u8:b, ld:w, i64:s, f:x2, i16:h, i64:p, u32:q, i64:last\n";
    if (uses_ext) r += "p_ext:\tproto i64, i64:t, i64:v\n";
    for (int n : extn_sizes) { r += S("p_extn_%d:\tproto i64, i64:n", n); for (int i = 1; i <= n; i++) r += S(", i64:a%d", i); r += "\n"; }
    for (auto &c : icalled) r += "r_" + c + ":\tref " + c + ", 0\n";
    if (const Json *dj = m.find("data")) for (auto &d : dj->a) { r += d.gets("name") + ":\ti64 " + std::to_string((long long) d.geti("val")) + "\n"; if (d.geti("multi", 0)) r += "\ti32 " + std::to_string((long long) (d.geti("val") & 0xffff) + 1) + "\n\ti64 7\n"; }  // multi: a data section continued by unnamed items
    for (size_t oi : order) r += ftxt[oi];
    if (m.geti("fwd_after", 0)) for (auto &f : m.at("funcs").a) r += "\tforward " + f.gets("name") + "\n";   // a (redundant) forward declaration after the definition
    r += "\tendmodule\n";
    return r;
  }
};

static inline std::map<std::string, FuncInfo> signatures(const Json &prog) {
  std::map<std::string, FuncInfo> m;
  for (auto &mod : prog.at("mods").a) for (auto &f : mod.at("funcs").a) { FuncInfo fi; fi.name = f.gets("name"); fi.na = (int) f.geti("na"); fi.nd = (int) f.geti("nd"); fi.fuel = f.geti("fuel") != 0; fi.ps = ps_of(f); fi.rt = rt_of(f); m[fi.name] = fi; }
  return m;
}

// ------------------------------------------------------------------------------------------------ C emitter (for c2mir)
struct CEmitter {
  std::string out; const Json *fn = nullptr; int depth = 0;
  static std::string opnd(const Json &o) { if (o.k == Json::Str) return o.s; long long v = (long long) o.i; return v == INT64_MIN ? std::string("(-9223372036854775807LL-1)") : std::to_string(v) + "LL"; }
  void ind() { out.append((size_t) (2 + 2 * depth), ' '); }
  std::string U(const Json &o) { return "(unsigned long long)" + opnd(o); }
  std::string L(const Json &o) { return "(long long)" + opnd(o); }   // parameters may have narrow (and unsigned) C types: every use converts first
  bool macros = false;
  void ret(const Json &s) {
    ind();
    char rt = rt_of(*fn);
    std::string pre = rt == 'q' ? "(long long)(" : std::string("(") + c_ty(rt) + ")((", post = rt == 'q' ? ")" : ") & " + std::to_string((unsigned long long) rt_mask(rt)) + "ULL)";
    if (macros) out += "return " + pre + "DSL_ID(DSL_MIX(" + opnd(s) + ")) + " + std::to_string((unsigned long long) fn->geti("salt")) + "ULL" + post + ";\n";
    else out += "return " + pre + U(s) + " * " + std::to_string(RETMUL) + "ULL + " + std::to_string((unsigned long long) fn->geti("salt")) + "ULL" + post + ";\n";
  }
  void stmts(const Json &b) { for (auto &st : b.a) stmt(st); }
  void call(const std::string &target, const Json &dst, const std::string &callee, const Json &args, const std::map<std::string, FuncInfo> &sigs) {
    FuncInfo fi = sigs.at(callee); if (fi.ps.empty()) fi.ps = default_ps(fi.na, fi.nd); ind(); bool hb = has_blk(fi.ps);
    if (hb) {  // aggregates are built in named temporaries
      out += "{ "; int ai = 0, bi = 0;
      for (char c : fi.ps) { if (const BlkInfo *b = blk_info(c)) {
          std::string v = ai < (int) args.size() ? U(args[ai]) : std::string("0ULL"); out += std::string(c_ty(c)) + S(" b%d = {", bi++);
          for (int j = 0; b->fields[j]; j++) out += std::string(j ? ", " : "") + (b->fields[j] == 'q' ? "(long long)(" + v + " + " + std::to_string(j) + "ULL)" : "(double)((" + v + " + " + std::to_string(j) + "ULL) & 65535ULL)");
          out += "}; "; }
        if (int_kind(c)) ai++; }
    }
    out += opnd(dst) + " = (long long) " + target + "(";
    int ai = 0, di = 0, k = 0, bi = 0;
    for (char c : fi.ps) {
      if (k++) out += ", ";
      if (blk_kind(c)) { out += S("b%d", bi++); ai++; }
      else if (int_kind(c)) { out += ai < (int) args.size() ? opnd(args[ai]) : std::string("0LL"); ai++; }
      else { out += S("%d.0%s", 2 + di, c == 'f' ? "f" : c == 'l' ? "L" : ""); di++; }
    }
    out += hb ? "); }\n" : ");\n";
  }
  const std::map<std::string, FuncInfo> *sigs = nullptr;
  void stmt(const Json &st) {
    const std::string &k = st[0].s;
    if (k == "op") {
      const std::string &o = st[1].s; std::string d = opnd(st[2]), a = U(st[3]), b = U(st[4]); ind(); out += d + " = ";
      if (o == "add") out += "(long long)(" + a + " + " + b + ")"; else if (o == "sub") out += "(long long)(" + a + " - " + b + ")"; else if (o == "mul") out += "(long long)(" + a + " * " + b + ")";
      else if (o == "and") out += "(long long)(" + a + " & " + b + ")"; else if (o == "or") out += "(long long)(" + a + " | " + b + ")"; else if (o == "xor") out += "(long long)(" + a + " ^ " + b + ")";
      else if (o == "lsh") out += "(long long)(" + a + " << " + opnd(st[4]) + ")"; else if (o == "ursh") out += "(long long)(" + a + " >> " + opnd(st[4]) + ")"; else if (o == "rsh") out += "(" + L(st[3]) + " >> " + opnd(st[4]) + ")";
      else if (o == "adds") out += "(long long)(int)((unsigned)" + a + " + (unsigned)" + b + ")"; else if (o == "subs") out += "(long long)(int)((unsigned)" + a + " - (unsigned)" + b + ")"; else if (o == "muls") out += "(long long)(int)((unsigned)" + a + " * (unsigned)" + b + ")";
      else if (o == "uadds") out += "(long long)(unsigned)((unsigned)" + a + " + (unsigned)" + b + ")";
      else if (o == "eq") out += "(" + a + " == " + b + ")"; else if (o == "ne") out += "(" + a + " != " + b + ")"; else if (o == "lt") out += "(" + L(st[3]) + " < " + L(st[4]) + ")"; else if (o == "le") out += "(" + L(st[3]) + " <= " + L(st[4]) + ")"; else if (o == "ult") out += "(" + a + " < " + b + ")";
      else out += "0";
      out += ";\n";
    } else if (k == "if" || k == "retif") {
      const std::string &c = st[1].s; std::string a = L(st[2]), b = L(st[3]);
      std::string cond = c == "eq" ? a + " == " + b : c == "ne" ? a + " != " + b : c == "lt" ? a + " < " + b : c == "le" ? a + " <= " + b : c == "gt" ? a + " > " + b : c == "ge" ? a + " >= " + b : c == "ult" ? U(st[2]) + " < " + U(st[3]) : U(st[2]) + " > " + U(st[3]);
      ind(); out += "if (" + cond + ") {\n"; depth++;
      if (k == "if") { stmts(st[4]); depth--; ind(); out += "} else {\n"; depth++; stmts(st[5]); } else ret(st[4]);
      depth--; ind(); out += "}\n";
    } else if (k == "fif") {
      const std::string &c = st[1].s; std::string a = "(double)" + opnd(st[2]), b = "(double)" + opnd(st[3]);
      std::string cond = c == "eq" ? a + " == " + b : c == "ne" ? a + " != " + b : c == "lt" ? a + " < " + b : c == "le" ? a + " <= " + b : c == "gt" ? a + " > " + b : a + " >= " + b;
      ind(); out += "if (" + cond + ") {\n"; depth++; stmts(st[4]); depth--; ind(); out += "} else {\n"; depth++; stmts(st[5]); depth--; ind(); out += "}\n";
    } else if (k == "loop") { std::string lc = S("lc%d", depth); ind(); out += "for (long long " + lc + " = 0; " + lc + " < " + opnd(st[1]) + "; " + lc + "++) {\n"; depth++; stmts(st[2]); depth--; ind(); out += "}\n"; }
    else if (k == "call") call(st[2].s, st[1], st[2].s, st[3], *sigs);
    else if (k == "icall") call("r_" + st[2].s, st[1], st[2].s, st[3], *sigs);
    else if (k == "ext") { ind(); out += opnd(st[1]) + " = ext(" + opnd(st[2]) + ", " + opnd(st[3]) + ");\n"; }
    else if (k == "fcmp") { ind(); out += opnd(st[1]) + " = ((void *) " + st[2].s + " == (void *) r_" + st[2].s + ") ? 1 : 0;\n"; }
    else if (k == "extm") { std::string v = opnd(st[2]), mk = "(" + U(st[2]) + " & 4095ULL)"; ind();
      out += opnd(st[1]) + " = extm(" + v + ", (float)" + mk + ", (long double)" + mk + ", (int)" + v + ", (double)" + mk + ", (unsigned char)" + v + ", (long double)" + mk + ", " + v + ", (float)" + mk + ", (short)" + v + ", " + v + ", (unsigned int)" + v + ", " + v + ");\n"; }
    else if (k == "sw" || k == "jt" || k == "lt" || k == "ld") {
      ind(); out += "switch (" + (k == "sw" ? U(st[1]) : "(unsigned long long) ext(9LL, " + opnd(st[1]) + ")") + " % " + std::to_string(st[2].size()) + "ULL) {\n";
      for (size_t i = 0; i < st[2].size(); i++) { ind(); out += "case " + std::to_string(i) + ": {\n"; depth++; if (k != "sw") { ind(); out += "ext(" + std::to_string(20 + i) + "LL, 0LL);\n"; } stmts(st[2][i]); ind(); out += "break; }\n"; depth--; }
      ind(); out += "}\n";
    } else if (k == "mem") {
      static const std::map<std::string, std::string> ty = {{"i8", "signed char"}, {"u8", "unsigned char"}, {"i16", "short"}, {"u16", "unsigned short"}, {"i32", "int"}, {"u32", "unsigned"}, {"i64", "long long"}};
      std::string t = ty.at(st[3].s), d = std::to_string((long long) st[4].num());
      // narrowed explicitly before the store (see the MIR emitter): forwarding of an un-narrowed stored value is not a history matter
      ind(); out += "{ long long nv = (long long)(" + t + ")" + opnd(st[2]) + "; *(" + t + " *)(buf + " + d + ") = (" + t + ")nv; " + opnd(st[1]) + " = *(" + t + " *)(buf + " + d + "); }\n";
    } else if (k == "ret") ret(st[1]);
  }
  std::string module(const Json &m, const std::map<std::string, FuncInfo> &all) {
    sigs = &all; macros = m.geti("cmacros", 0) != 0;
    std::string r;
    if (macros)  // pre-processor traffic: object- and function-like macros, a benign identical redefinition, #ifdef / #if / #else, #undef
      r += "#define DSL_MIX(x) ((unsigned long long)(x) * " + std::to_string(RETMUL) + "ULL)\n#define DSL_MIX(x) ((unsigned long long)(x) * " + std::to_string(RETMUL) + "ULL)\n"
           "#define DSL_K 7\n#define DSL_K 7\n#ifdef DSL_K\n#if DSL_K > 3 && defined(DSL_MIX)\n#define DSL_ID(x) (x)\n#else\n#define DSL_ID(x) (0)\n#endif\n#else\n#define DSL_ID(x) (1)\n#endif\n#undef DSL_K\n";
    bool cdecls = m.geti("cdecls", 0) != 0; std::string mn = m.gets("name");
    if (cdecls)  // declaration traffic for the C front end: incomplete array type completed by a later definition, repeated tentative
                 // definitions, struct / union / enum, string concatenation, a static local, by-value struct parameters, recursion
      r += "extern long long dsl_tab_" + mn + "[];\nlong long dsl_tab_" + mn + "[4] = {1, 2, 3, 4};\nstatic int dsl_tent; static int dsl_tent;\n"
           "typedef struct dsl_s { int a; long long b; char c[3]; } dsl_t;\ntypedef union { long long q; double d; unsigned char bytes[8]; } dsl_u;\n"
           "enum dsl_e { DSL_A, DSL_B = 5, DSL_C };\nstatic const char *dsl_str = \"abc\" \"def\";\nstatic long long dsl_fwd(dsl_t s, int n);\n"
           "static long long dsl_helper(dsl_t s, int n) {\n  static int cnt; dsl_u u; cnt++; u.q = s.b;\n"
           "  switch (n) { case DSL_A: return s.b; case DSL_B: return dsl_str[n] + (long long) sizeof (dsl_t); default: return s.a + dsl_tab_" + mn + "[n & 3] + u.bytes[0] + dsl_tent + cnt * 0; }\n}\n"
           "static long long dsl_fwd(dsl_t s, int n) { dsl_t t = s; t.a += n; return n > 0 ? dsl_fwd(t, n - 1) : dsl_helper(t, DSL_C); }\n";
    { bool ub = false; for (auto &kv : all) if (has_blk(kv.second.ps)) ub = true; if (ub) r += C_BLK_DECLS; }
    r += "extern long long ext(long long, long long);\n";
    { bool um = false; for (auto &f : m.at("funcs").a) walk(f.at("body"), [&](const Json &st) { if (st[0].s == "extm") um = true; });
      if (um) r += "extern long long extm(long long, float, long double, int, double, unsigned char, long double, long long, float, short, long long, unsigned int, long long);\n"; }
    std::set<std::string> defined; for (auto &f : m.at("funcs").a) defined.insert(f.gets("name"));
    auto plist = [&](const FuncInfo &fi0, bool names) { FuncInfo fi = fi0; if (fi.ps.empty()) fi.ps = default_ps(fi.na, fi.nd); std::string s; int ai = 0, di = 0, k = 0; for (char c : fi.ps) { if (k++) s += ", "; s += c_ty(c); if (names) s += blk_kind(c) ? S(" s%d", ai++) : int_kind(c) ? S(" a%d", ai++) : S(" d%d", di++); } if (fi.ps.empty()) s += "void"; return s; };
    auto proto = [&](const FuncInfo &fi) { return std::string(c_ty(fi.rt)) + " " + fi.name + "(" + plist(fi, true) + ")"; };
    std::set<std::string> used, ic;
    for (auto &f : m.at("funcs").a) walk(f.at("body"), [&](const Json &st) { if (st[0].s == "call" || st[0].s == "icall" || st[0].s == "fcmp") used.insert(st[2].s); if (st[0].s == "icall" || st[0].s == "fcmp") ic.insert(st[2].s); });
    for (auto &u : used) r += (defined.count(u) ? "" : "extern ") + proto(all.at(u)) + ";\n";
    for (auto &f : m.at("funcs").a) { auto &fi = all.at(f.gets("name")); if (!used.count(fi.name)) r += proto(fi) + ";\n"; }
    for (auto &c : ic) { auto &fi = all.at(c); r += std::string("static ") + c_ty(fi.rt) + " (*r_" + c + ")(" + plist(fi, false) + ") = " + c + ";\n"; }
    for (auto &f : m.at("funcs").a) {
      fn = &f; depth = 0; out.clear(); auto &fi = all.at(f.gets("name"));
      r += (f.geti("exp", 1) ? "" : "static ") + proto(fi) + " {\n  long long v0 = 0, v1 = 0, v2 = 0, v3 = 0, v4 = 0, v5 = 0; char buf[64];\n  (void) v1; (void) v2; (void) v3; (void) v4; (void) v5; (void) buf;\n";
      { int ai = 0; for (char c : fi.ps) { if (const BlkInfo *b = blk_info(c)) {
          static const char *fn_[] = {"x", "y", "z", "w"}; r += S("  long long a%d = (long long)(0ULL", ai);
          for (int j = 0; b->fields[j]; j++) r += S(" + (unsigned long long)(long long) s%d.%s * %dULL", ai, fn_[j], j + 1);
          r += S("); (void) a%d;\n", ai); }
        if (int_kind(c)) ai++; } }
      if (cdecls) r += "  { dsl_t s = {1, 2, \"ab\"}; v0 += dsl_fwd(s, 2) * 0; }\n";
      if (f.geti("gv")) r += "  v0 += " + std::to_string((long long) f.geti("gv")) + "LL;\n";
      for (int i = 0; i < fi.nd; i++) r += S("  v0 += (long long) d%d;\n", i);
      if (fi.fuel) { Json seven(7); bool mc = macros; macros = false; out.clear(); depth = 0; ret(seven); macros = mc; r += "  if (!(a0 > 0)) " + out.substr(2); out.clear(); }
      stmts(f.at("body"));
      const Json &b = f.at("body"); if (b.size() == 0 || b[b.size() - 1][0].s != "ret") { Json z(0); ret(z); }
      r += out + "}\n";
    }
    return r;
  }
};

// ------------------------------------------------------------------------------------------------ model (evaluator)
struct ExtCall { int64_t tag, v; bool operator==(const ExtCall &o) const { return tag == o.tag && v == o.v; } };
struct Model {
  // binding environment: (module name, callee name) -> definition; filled by the history model (C13) or by default rules
  std::function<const Json *(const std::string &mod, const std::string &callee)> resolve;
  std::function<int64_t(int64_t tag, int64_t v, Model &)> ext;  // external behaviour (may re-enter through call())
  std::vector<ExtCall> log; uint64_t steps = 0, max_steps = 400000; bool overrun = false; int depth = 0;
  std::vector<const Json *> entered;  // every function definition entered, in order (with repetitions)
  struct Frame { int64_t v[NLOC]; std::vector<int64_t> a; const Json *f; std::string mod; bool returned = false; int64_t rv = 0; };
  static int64_t val(const Json &o, Frame &fr) {
    if (o.k != Json::Str) return o.i;
    int ix = atoi(o.s.c_str() + 1); if (o.s[0] == 'v') return fr.v[ix % NLOC]; return ix < (int) fr.a.size() ? fr.a[ix] : 0;
  }
  static void setv(const Json &o, Frame &fr, int64_t x) { if (o.k == Json::Str && o.s[0] == 'v') fr.v[atoi(o.s.c_str() + 1) % NLOC] = x; }
  static bool cmp(const std::string &c, int64_t a, int64_t b) {
    if (c == "eq") return a == b; if (c == "ne") return a != b; if (c == "lt") return a < b; if (c == "le") return a <= b; if (c == "gt") return a > b; if (c == "ge") return a >= b;
    if (c == "ult") return (uint64_t) a < (uint64_t) b; return (uint64_t) a > (uint64_t) b;
  }
  int64_t retval(Frame &fr, int64_t s) { return (int64_t) ((uint64_t) s * RETMUL + (uint64_t) fr.f->geti("salt")); }
  void run(const Json &body, Frame &fr) {
    for (auto &st : body.a) {
      if (fr.returned || overrun) return;
      if (++steps > max_steps) { overrun = true; return; }
      const std::string &k = st[0].s;
      if (k == "op") {
        const std::string &o = st[1].s; uint64_t a = (uint64_t) val(st[3], fr), b = (uint64_t) val(st[4], fr), r = 0;
        if (o == "add") r = a + b; else if (o == "sub") r = a - b; else if (o == "mul") r = a * b; else if (o == "and") r = a & b; else if (o == "or") r = a | b; else if (o == "xor") r = a ^ b;
        else if (o == "lsh") r = a << (b & 63); else if (o == "ursh") r = a >> (b & 63); else if (o == "rsh") r = (uint64_t) ((int64_t) a >> (b & 63));
        else if (o == "adds") r = (uint64_t) (int64_t) (int32_t) ((uint32_t) a + (uint32_t) b); else if (o == "subs") r = (uint64_t) (int64_t) (int32_t) ((uint32_t) a - (uint32_t) b); else if (o == "muls") r = (uint64_t) (int64_t) (int32_t) ((uint32_t) a * (uint32_t) b);
        else if (o == "uadds") r = (uint64_t) (uint32_t) ((uint32_t) a + (uint32_t) b);
        else if (o == "eq") r = a == b; else if (o == "ne") r = a != b; else if (o == "lt") r = (int64_t) a < (int64_t) b; else if (o == "le") r = (int64_t) a <= (int64_t) b; else if (o == "ult") r = a < b;
        setv(st[2], fr, (int64_t) r);
      } else if (k == "if") { if (cmp(st[1].s, val(st[2], fr), val(st[3], fr))) run(st[4], fr); else run(st[5], fr); }
      else if (k == "fif") { double a = (double) val(st[2], fr), b = (double) val(st[3], fr); const std::string &c = st[1].s; bool t = c == "eq" ? a == b : c == "ne" ? a != b : c == "lt" ? a < b : c == "le" ? a <= b : c == "gt" ? a > b : a >= b; if (t) run(st[4], fr); else run(st[5], fr); }
      else if (k == "loop") { int64_t n = val(st[1], fr); for (int64_t i = 0; i < n && !fr.returned && !overrun; i++) run(st[2], fr); }
      else if (k == "call" || k == "icall") {
        std::vector<int64_t> args; for (auto &x : st[3].a) args.push_back(val(x, fr));
        const Json *callee = resolve(fr.mod, k == "icall" ? st[2].s + "#i" : st[2].s); int64_t r = 0;  // "#i": indirect call through a ref data item
        if (callee) r = call(*callee, args); else { missing = st[2].s; overrun = true; }
        setv(st[1], fr, r);
      } else if (k == "ldata") { const Json *d = resolve(fr.mod, st[2].s + "#d"); if (d) setv(st[1], fr, d->geti("val")); else { missing = st[2].s; overrun = true; } }
      else if (k == "extn") {
        int64_t n = st[2].num(), v = val(st[3], fr); log.push_back({100 + n, v}); uint64_t r = (uint64_t) n;
        for (int64_t i = 1; i <= n; i++) r = r * 31 + (uint64_t) (i <= 3 ? v + i : i * 7);
        setv(st[1], fr, (int64_t) r);
      } else if (k == "fcmp") { setv(st[1], fr, 1); }
      else if (k == "extm") { int64_t v = val(st[2], fr); log.push_back({200, v}); setv(st[1], fr, (int64_t) extm_value(v)); }
      else if (k == "ext") { int64_t tag = val(st[2], fr), v = val(st[3], fr); log.push_back({tag, v}); int64_t r = ext ? ext(tag, v, *this) : v * 3 + tag; setv(st[1], fr, r); }
      else if (k == "sw") { uint64_t s = (uint64_t) val(st[1], fr); run(st[2][s % st[2].size()], fr); }
      else if (k == "jt" || k == "lt" || k == "ld") { int64_t v = val(st[1], fr); log.push_back({9, v}); uint64_t s = (uint64_t) (ext ? ext(9, v, *this) : v * 3 + 9); size_t ci = s % st[2].size(); log.push_back({(int64_t) (20 + ci), 0}); if (ext) ext((int64_t) (20 + ci), 0, *this); run(st[2][ci], fr); }
      else if (k == "mem") {
        int64_t s = val(st[2], fr), r; const std::string &t = st[3].s;
        r = t == "i8" ? (int8_t) s : t == "u8" ? (uint8_t) s : t == "i16" ? (int16_t) s : t == "u16" ? (uint16_t) s : t == "i32" ? (int32_t) s : t == "u32" ? (int64_t) (uint32_t) s : s;
        setv(st[1], fr, r);
      } else if (k == "retif") { if (cmp(st[1].s, val(st[2], fr), val(st[3], fr))) { fr.returned = true; fr.rv = retval(fr, val(st[4], fr)); } }
      else if (k == "ret") { fr.returned = true; fr.rv = retval(fr, val(st[1], fr)); }
    }
  }
  std::string missing;
  std::function<std::string(const Json *)> module_of;  // definition -> module name
  int64_t call(const Json &f, const std::vector<int64_t> &args) {
    if (++depth > 200) { overrun = true; depth--; return 0; }
    entered.push_back(&f);
    Frame fr; memset(fr.v, 0, sizeof fr.v); fr.f = &f; fr.mod = module_of ? module_of(&f) : ""; fr.a = args; fr.a.resize((size_t) f.geti("na"), 0);
    char rt = rt_of(f); uint64_t rmask = rt_mask(rt);
    { std::string ps = ps_of(f); size_t ai = 0; for (char c : ps) if (int_kind(c)) { if (ai < fr.a.size()) fr.a[ai] = narrow(c, fr.a[ai]); ai++; } }  // a narrow parameter holds its argument converted to its type
    fr.v[0] += f.geti("gv");                                         // hard-register global variable, set and added in the prologue
    for (int i = 0; i < (int) f.geti("nd"); i++) fr.v[0] += 2 + i;  // callers always pass 2.0, 3.0, ... (d2i)
    if (f.geti("fuel") && !(fr.a[0] > 0)) { depth--; return (int64_t) ((uint64_t) retval(fr, 7) & rmask); }
    run(f.at("body"), fr);
    depth--;
    return (int64_t) ((uint64_t) (fr.returned ? fr.rv : retval(fr, 0)) & rmask);
  }
};

// ------------------------------------------------------------------------------------------------ generator
struct GenOpts {
  int nmods = 2, nfuncs = 3, body = 6; bool lref = true, jt = true, icall = true, ext = true, mem = true, loops = true, doubles = true, recursion = true, sw = true;
  int max_na = 8; int sw_weight = 8; bool blocked = false, wide = false; bool gvar = true, fpbranch = true, ldiff = true, extn = false, typed = false, extm = false, blocks = false, fcmp = false, two_results = false;
};
struct Generator {
  Rng &r; GenOpts o; std::vector<FuncInfo> fs; int cur = 0; int depth = 0; bool in_loop = false;
  Generator(Rng &rng, const GenOpts &op) : r(rng), o(op) {}
  Json src(bool allow_const = true) {
    unsigned c = (unsigned) r.below(10);
    if (c < 5) return Json(S("v%d", (int) r.below(NLOC)));
    if (c < 7 && fs[cur].na > 0) return Json(S("a%d", (int) r.below(fs[cur].na)));
    if (!allow_const) return Json(S("v%d", (int) r.below(NLOC)));
    static const long long cs[] = {0, 1, -1, 2, 3, 7, 8, 255, 256, 65535, 0x7fffffffLL, 0x80000000LL, -2147483648LL, 0xffffffffLL, 1000003, 0x123456789abLL, INT64_MAX, INT64_MIN};
    return r.chance(2, 3) ? Json(cs[r.below(sizeof cs / sizeof *cs)]) : Json((long long) r.range(-100, 100));
  }
  Json dst() { return Json(S("v%d", (int) r.below(NLOC))); }
  Json block(int n) { Json b = Json::array(); for (int i = 0; i < n; i++) b.push(stmt()); return b; }
  Json args_for(int callee, bool upward) {
    Json a = Json::array(); const FuncInfo &fi = fs[callee];
    for (int i = 0; i < fi.na; i++) {
      if (i == 0 && fi.fuel) {
        if (fs[cur].fuel) { a.push(Json("v5")); }  // v5 holds fuel-1 (set at function start)
        else a.push(Json((long long) r.range(1, 3)));
      } else a.push(src());
    }
    (void) upward; return a;
  }
  Json stmt() {
    static const char *ops[] = {"add", "sub", "mul", "and", "or", "xor", "adds", "subs", "muls", "uadds", "eq", "ne", "lt", "le", "ult"};
    static const char *cmps[] = {"eq", "ne", "lt", "le", "gt", "ge", "ult", "ugt"};
    Json s = Json::array(); unsigned c = (unsigned) r.below(100);
    bool deep = depth >= 2;
    if (c < 34 || deep) {
      if (r.chance(1, 6)) { static const char *sh[] = {"lsh", "rsh", "ursh"}; s.push("op"); s.push(sh[r.below(3)]); s.push(dst()); s.push(src()); s.push((int) r.below(64)); }
      else { s.push("op"); s.push(ops[r.below(15)]); s.push(dst()); s.push(src()); s.push(src()); }
    } else if (c < 37 && o.fpbranch) { static const char *fc[] = {"eq", "ne", "lt", "le", "gt", "ge"}; depth++; s.push("fif"); s.push(fc[r.below(6)]); s.push(src(false)); s.push(r.chance(1, 3) ? src(false) : src()); s.push(block((int) r.range(1, 2))); s.push(block((int) r.range(0, 2))); depth--; }
    else if (c < 44) { depth++; s.push("if"); s.push(cmps[r.below(8)]); s.push(src()); s.push(src()); s.push(block((int) r.range(1, 2))); s.push(block((int) r.range(0, 2))); depth--; }
    else if (c < 50 && o.loops && !in_loop) { depth++; in_loop = true; s.push("loop"); s.push((int) r.range(1, 5)); s.push(block((int) r.range(1, 3))); in_loop = false; depth--; }
    else if (c < 66) {  // call: downward always; upward/self only between fuel functions
      std::vector<int> cand; for (int j = 0; j < (int) fs.size(); j++) { if (j > cur) cand.push_back(j); else if (o.recursion && fs[cur].fuel && fs[j].fuel) cand.push_back(j); }
      if (cand.empty() || in_loop) return stmt_simple();
      int j = cand[r.below(cand.size())]; bool ic = o.icall && r.chance(1, 4);
      // a function with computed gotos is only called indirectly (never inlined): two inlined copies of laddr/jmpi code in
      // one caller crash the generated code at the pinned commit -- a program-level generator matter, not a history one
      if (fs[j].cgoto || fs[j].gv) ic = true;
      if (ic && !o.icall) return stmt_simple();
      s.push(ic ? "icall" : "call"); s.push(dst()); s.push(fs[j].name); s.push(args_for(j, j <= cur));
    } else if (c < 68 && o.extn) { static const int ns[] = {7, 20, 63, 65, 70}; s.push("extn"); s.push(dst()); s.push(ns[r.below(5)]); s.push(src(false)); }
    else if (c < 70 && o.extm) { s.push("extm"); s.push(dst()); s.push(src(false)); }
    else if (c < 71 && o.icall && o.fcmp && cur + 1 < (int) fs.size()) { s.push("fcmp"); s.push(dst()); s.push(fs[(size_t) r.range(cur + 1, (int) fs.size() - 1)].name); }
    else if (c < 74 && o.ext) { s.push("ext"); s.push(dst()); s.push((int) r.range(1, 6)); s.push(src()); }
    else if (c < 74 + (unsigned) o.sw_weight && o.sw) {
      depth++; s.push("sw"); s.push(src(false)); Json cs = Json::array(); int n = (int) r.range(2, 4); for (int i = 0; i < n; i++) cs.push(block((int) r.range(1, 2))); s.push(cs); depth--;
    } else if (c < 90 && o.mem) { static const char *ty[] = {"i8", "u8", "i16", "u16", "i32", "u32", "i64"}; s.push("mem"); s.push(dst()); s.push(src()); s.push(ty[r.below(7)]); s.push((int) (8 * r.below(7))); }
    else if (c < 94 && depth == 0) { s.push("retif"); s.push(cmps[r.below(8)]); s.push(src()); s.push(src()); s.push(src()); }
    else return stmt_simple();
    return s;
  }
  Json stmt_simple() { Json s = Json::array(); s.push("op"); s.push("add"); s.push(dst()); s.push(src()); s.push(src()); return s; }
  Json program() {
    int total = o.nmods * o.nfuncs; fs.clear();
    for (int i = 0; i < total; i++) { FuncInfo fi; fi.name = S("f%d", i); fi.fuel = o.recursion && r.chance(1, 3); fi.na = (int) r.range(fi.fuel ? 1 : 0, r.chance(1, 4) ? o.max_na : 3);
      if (o.wide && i == total - 1 && !fi.fuel) fi.na = (int) r.range(65, 70);   // one function with a very long parameter list
      fi.nd = fi.na > 8 ? 0 : o.doubles && r.chance(1, 4) ? (int) (r.chance(1, 3) ? r.range(4, 8) : r.range(1, 3)) : 0; fi.cgoto = (o.jt || o.lref) && r.chance(1, 2);
      if (fi.na > 8) fi.cgoto = false;
      if (o.typed && o.blocks && fi.na <= 8 && !fi.fuel && r.chance(1, 2)) fi.na = (int) r.range(1, 8);   // aggregates meet every register boundary
      if (o.typed && o.blocks && fi.na <= 8 && i > 0 && !fs[i - 1].ps.empty() && has_blk(fs[i - 1].ps) && !fi.fuel && !fs[i - 1].fuel && r.chance(1, 3)) {
        // sibling signature: the previous function's, with one aggregate of the same class but another size
        fi.na = fs[i - 1].na; fi.nd = fs[i - 1].nd; fi.ps = fs[i - 1].ps; fi.rt = fs[i - 1].rt;
        std::vector<size_t> bp; for (size_t q = 0; q < fi.ps.size(); q++) if (strchr("STQPGH", fi.ps[q])) bp.push_back(q);
        if (!bp.empty()) { char &c = fi.ps[bp[r.below(bp.size())]]; c = c == 'S' ? 'T' : c == 'T' ? 'S' : c == 'Q' ? 'P' : c == 'P' ? 'Q' : c == 'G' ? 'H' : 'G'; }
      } else
      if (o.typed && fi.na <= 8 && r.chance(1, 2)) {  // parameter kinds: narrow integers, float, long double, in any order; floating-point result
        if (fi.nd == 0 && r.chance(1, 2)) fi.nd = (int) r.range(1, r.chance(1, 4) ? 10 : 4);
        bool stacky = r.chance(1, 3);   // more integers than integer registers (or more doubles than SSE registers) followed by long doubles: everything meets on the stack
        if (stacky) { if (r.chance(2, 3)) fi.na = (int) r.range(7, 8); else fi.nd = (int) r.range(9, 12); if (fi.nd == 0) fi.nd = (int) r.range(1, 3); }
        static const char ik[] = "qqqiubBwW", fk[] = "ddfl"; std::string ints, fps;
        int nblk = 0;
        for (int k = 0; k < fi.na; k++) { bool blk = o.blocks && nblk < 3 && !(k == 0 && fi.fuel) && r.chance(1, 3); if (blk) nblk++; ints += (k == 0 && fi.fuel) ? 'q' : blk ? "STQPMNGH"[r.below(8)] : ik[r.below(9)]; }
        for (int k = 0; k < fi.nd; k++) fps += fk[r.below(4)];
        if (stacky && (fi.nd < 9 || r.coin())) fps[fps.size() - 1] = 'l';   // (with more than 8 floating-point parameters the overflow may also be floats and doubles only)
        size_t a = 0, b = 0; while (a < ints.size() || b < fps.size()) { bool ti = b >= fps.size() || (a < ints.size() && r.coin()); if (a == 0 && fi.fuel) ti = true; if (stacky && b + 1 == fps.size() && a < ints.size()) ti = true; fi.ps += ti ? ints[a++] : fps[b++]; }  // (stacky: the last long double comes after all integers)
        if (r.chance(1, 3)) fi.rt = "dflQQ"[r.below(o.two_results ? 5 : 3)];
      }
      if (o.gvar && fi.na <= 4 && r.chance(1, 6)) fi.gv = (int) r.range(1, 90);  // a variable tied to hard register r8 (free when at most 4 integer parameters)
      fs.push_back(fi); }
    // spread functions over modules round-robin so that calls cross module borders in both directions
    Json prog = Json::object(), mods = Json::array();
    for (int m = 0; m < o.nmods; m++) { Json mo = Json::object(); mo.set("name", S("m%d", m)); mo.set("funcs", Json::array()); mods.push(mo); }
    for (int i = 0; i < total; i++) {
      cur = i; depth = 0; in_loop = false;
      Json f = Json::object(); f.set("name", fs[i].name); f.set("salt", (long long) (1000 + 37 * i + (long long) r.below(30))); f.set("na", fs[i].na); f.set("nd", fs[i].nd); f.set("fuel", (int) fs[i].fuel); f.set("exp", 1); if (fs[i].gv) f.set("gv", fs[i].gv); if (!fs[i].ps.empty()) f.set("ps", fs[i].ps); if (fs[i].rt != 'q') f.set("rt", std::string(1, fs[i].rt));
      Json body = Json::array();
      if (fs[i].fuel) { Json s = Json::array(); s.push("op"); s.push("sub"); s.push("v5"); s.push("a0"); s.push(1); body.push(s); }
      // computed gotos (laddr/jmpi, lref tables) come first in a body, where they are reachable whatever the optimizer folds:
      // address-taken labels inside unreachable code are a generator (C01) matter the histories should not trip over
      if (fs[i].cgoto) {
        Json s = Json::array(); depth = 2; s.push(o.jt && (!o.lref || r.coin()) ? "jt" : (o.ldiff && r.coin() ? "ld" : "lt")); s.push(src(false));
        Json cs = Json::array(); int nc = (int) r.range(2, 4); for (int q = 0; q < nc; q++) cs.push(block((int) r.range(1, 2))); s.push(cs); body.push(s); depth = 0;
      }
      int n = (int) r.range(2, o.body);
      for (int k = 0; k < n; k++) body.push(stmt());
      Json rt = Json::array(); rt.push("ret"); rt.push(Json(S("v%d", (int) r.below(NLOC - 1)))); body.push(rt);
      f.set("body", body);
      mods[o.blocked ? (size_t) (i / o.nfuncs) % (size_t) o.nmods : (size_t) (i % o.nmods)]["funcs"].push(f);  // blocked: neighbours (caller/callee) share a module
    }
    prog.set("mods", mods);
    return prog;
  }
};
// fuel functions overwrite v5 only at the start; generated statements may clobber v5, which would break the
// "fuel decreases on every upward call" argument, so dst() never yields v5 in fuel functions: enforce by rewriting.
static inline void protect_fuel(Json &prog) {
  std::function<void(Json &)> fix = [&](Json &b) {
    for (auto &st : b.a) {
      const std::string k = st[0].s;
      if (k == "op" && st[2].k == Json::Str && st[2].s == "v5") st[2] = Json("v4");
      else if ((k == "call" || k == "icall" || k == "ext" || k == "extm" || k == "fcmp" || k == "mem") && st[1].k == Json::Str && st[1].s == "v5") st[1] = Json("v4");
      for_each_block_mut(st, fix);
    }
  };
  for (auto &m : prog["mods"].a) for (auto &f : m["funcs"].a) if (f.geti("fuel")) { Json &b = f["body"]; Json first = b[0]; fix(b); b[0] = first; }
}
}  // namespace prog
