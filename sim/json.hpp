// Minimal JSON value: ordered objects, int64/double numbers; parse + serialise.  No dependencies.
#pragma once
#include <cstdint>
#include <cstdio>
#include <cstdlib>
#include <cstring>
#include <string>
#include <vector>
#include <utility>
#include <stdexcept>
namespace sim {
struct Json {
  enum Kind { Null, Bool, Int, Dbl, Str, Arr, Obj } k = Null;
  bool b = false; int64_t i = 0; double d = 0; std::string s;
  std::vector<Json> a; std::vector<std::pair<std::string, Json>> o;
  Json() {}
  Json(bool v) : k(Bool), b(v) {}
  Json(int v) : k(Int), i(v) {}
  Json(unsigned v) : k(Int), i(v) {}
  Json(long v) : k(Int), i(v) {}
  Json(long long v) : k(Int), i(v) {}
  Json(unsigned long v) : k(Int), i((int64_t) v) {}
  Json(unsigned long long v) : k(Int), i((int64_t) v) {}
  Json(double v) : k(Dbl), d(v) {}
  Json(const char *v) : k(Str), s(v) {}
  Json(const std::string &v) : k(Str), s(v) {}
  static Json array() { Json j; j.k = Arr; return j; }
  static Json object() { Json j; j.k = Obj; return j; }
  bool is_null() const { return k == Null; }
  Json &push(const Json &v) { if (k != Arr) { k = Arr; } a.push_back(v); return a.back(); }
  Json &set(const std::string &key, const Json &v) {
    if (k != Obj) k = Obj;
    for (auto &p : o) if (p.first == key) { p.second = v; return p.second; }
    o.emplace_back(key, v); return o.back().second;
  }
  const Json *find(const std::string &key) const { for (auto &p : o) if (p.first == key) return &p.second; return nullptr; }
  Json *find(const std::string &key) { for (auto &p : o) if (p.first == key) return &p.second; return nullptr; }
  bool has(const std::string &key) const { return find(key) != nullptr; }
  const Json &at(const std::string &key) const { static Json nul; auto p = find(key); return p ? *p : nul; }
  Json &operator[](const std::string &key) { auto p = find(key); if (p) return *p; return set(key, Json()); }
  const Json &operator[](size_t ix) const { return a[ix]; }
  Json &operator[](size_t ix) { return a[ix]; }
  size_t size() const { return k == Arr ? a.size() : k == Obj ? o.size() : 0; }
  int64_t num(int64_t dflt = 0) const { return k == Int ? i : k == Dbl ? (int64_t) d : k == Bool ? b : dflt; }
  int64_t geti(const std::string &key, int64_t dflt = 0) const { auto p = find(key); return p ? p->num(dflt) : dflt; }
  std::string gets(const std::string &key, const std::string &dflt = "") const { auto p = find(key); return p && p->k == Str ? p->s : dflt; }
  void erase(const std::string &key) { for (size_t j = 0; j < o.size(); j++) if (o[j].first == key) { o.erase(o.begin() + j); return; } }

  static void esc(std::string &out, const std::string &s) {
    out += '"';
    for (unsigned char c : s) {
      switch (c) {
      case '"': out += "\\\""; break; case '\\': out += "\\\\"; break;
      case '\n': out += "\\n"; break; case '\t': out += "\\t"; break; case '\r': out += "\\r"; break;
      default: if (c < 0x20 || c >= 0x7f) { char b[8]; snprintf(b, sizeof b, "\\u%04x", c); out += b; } else out += (char) c;
      }
    }
    out += '"';
  }
  void dump(std::string &out) const {
    char buf[40];
    switch (k) {
    case Null: out += "null"; break;
    case Bool: out += b ? "true" : "false"; break;
    case Int: snprintf(buf, sizeof buf, "%lld", (long long) i); out += buf; break;
    case Dbl: snprintf(buf, sizeof buf, "%.17g", d); out += buf; break;
    case Str: esc(out, s); break;
    case Arr: out += '['; for (size_t j = 0; j < a.size(); j++) { if (j) out += ','; a[j].dump(out); } out += ']'; break;
    case Obj: out += '{'; for (size_t j = 0; j < o.size(); j++) { if (j) out += ','; esc(out, o[j].first); out += ':'; o[j].second.dump(out); } out += '}'; break;
    }
  }
  std::string str() const { std::string r; dump(r); return r; }

  // ---- parser ----
  struct P { const char *p, *e; };
  static void ws(P &p) { while (p.p < p.e && (*p.p == ' ' || *p.p == '\n' || *p.p == '\t' || *p.p == '\r')) p.p++; }
  static Json parse(const std::string &txt) { P p{txt.data(), txt.data() + txt.size()}; Json j = pv(p); ws(p); if (p.p != p.e) throw std::runtime_error("json: trailing garbage"); return j; }
  static std::string pstr(P &p) {
    std::string r; p.p++;
    while (p.p < p.e && *p.p != '"') {
      if (*p.p == '\\') {
        p.p++; if (p.p >= p.e) break;
        switch (*p.p) {
        case 'n': r += '\n'; break; case 't': r += '\t'; break; case 'r': r += '\r'; break;
        case 'b': r += '\b'; break; case 'f': r += '\f'; break;
        case 'u': { unsigned v = 0; for (int j = 1; j <= 4 && p.p + j < p.e; j++) { char c = p.p[j]; v = v * 16 + (c <= '9' ? c - '0' : (c | 32) - 'a' + 10); } p.p += 4; r += (char) (v & 0xff); break; }
        default: r += *p.p;
        }
        p.p++;
      } else r += *p.p++;
    }
    if (p.p >= p.e) throw std::runtime_error("json: unterminated string");
    p.p++; return r;
  }
  static Json pv(P &p) {
    ws(p); if (p.p >= p.e) throw std::runtime_error("json: eof");
    char c = *p.p;
    if (c == '{') { Json j = object(); p.p++; ws(p); if (*p.p == '}') { p.p++; return j; }
      for (;;) { ws(p); if (*p.p != '"') throw std::runtime_error("json: key"); std::string key = pstr(p); ws(p); if (*p.p != ':') throw std::runtime_error("json: colon"); p.p++; j.o.emplace_back(key, pv(p)); ws(p); if (*p.p == ',') { p.p++; continue; } if (*p.p == '}') { p.p++; return j; } throw std::runtime_error("json: obj"); } }
    if (c == '[') { Json j = array(); p.p++; ws(p); if (*p.p == ']') { p.p++; return j; }
      for (;;) { j.a.push_back(pv(p)); ws(p); if (*p.p == ',') { p.p++; continue; } if (*p.p == ']') { p.p++; return j; } throw std::runtime_error("json: arr"); } }
    if (c == '"') return Json(pstr(p));
    if (!strncmp(p.p, "true", 4)) { p.p += 4; return Json(true); }
    if (!strncmp(p.p, "false", 5)) { p.p += 5; return Json(false); }
    if (!strncmp(p.p, "null", 4)) { p.p += 4; return Json(); }
    const char *st = p.p; bool isd = false;
    if (*p.p == '-' || *p.p == '+') p.p++;
    while (p.p < p.e && ((*p.p >= '0' && *p.p <= '9') || *p.p == '.' || *p.p == 'e' || *p.p == 'E' || *p.p == '-' || *p.p == '+')) { if (*p.p == '.' || *p.p == 'e' || *p.p == 'E') isd = true; p.p++; }
    if (st == p.p) throw std::runtime_error("json: value");
    std::string n(st, p.p);
    if (isd) return Json(strtod(n.c_str(), nullptr));
    if (n[0] == '-') return Json((long long) strtoll(n.c_str(), nullptr, 10));
    return Json((long long) (int64_t) strtoull(n.c_str(), nullptr, 10));
  }
};
}  // namespace sim
