// simalloc — the simulated general allocator (implements MIR_alloc_t).
// One contiguous arena per context; bump allocation, red zones, freed blocks poisoned and never reused within a
// run; an out-of-band ledger (sorted by offset) checks every message of the allocator protocol:
//   L1 pointer passed to free/realloc is a live block of *this* arena      (class alloc_foreign_ptr / alloc_double_free)
//   L2 realloc's old_size equals the recorded size                         (class alloc_old_size)
//   L4 red zones and freed blocks keep their poison (audit)                (class alloc_redzone / alloc_use_after_free)
//   L6 at finish the live set is empty                                     (class alloc_leak)
// Legal-but-unusual behaviours are knobs: realloc moving policy, junk fill, spacing.
#pragma once
#include <sys/mman.h>
#include <cstdint>
#include <cstdio>
#include <cstring>
#include <string>
#include <vector>
#include <algorithm>
#include "rng.hpp"
extern "C" {
#include "mir-alloc.h"
}
#if defined(__SANITIZE_ADDRESS__)
#include <sanitizer/asan_interface.h>
#define SIM_POISON(p, n) ASAN_POISON_MEMORY_REGION(p, n)
#define SIM_UNPOISON(p, n) ASAN_UNPOISON_MEMORY_REGION(p, n)
#else
#define SIM_POISON(p, n) ((void) 0)
#define SIM_UNPOISON(p, n) ((void) 0)
#endif

namespace sim {

enum ReallocMode { RA_MOVE_ALWAYS = 0, RA_MOVE_ON_GROW = 1, RA_INPLACE_SHRINK_MOVE_GROW = 2 };

struct SimAlloc {
  struct Block { size_t off, size; uint8_t live; uint32_t step; };
  uint8_t *base = nullptr; size_t cap = 0, top = 0;
  std::vector<Block> blocks;  // sorted by off (bump)
  size_t live_blocks = 0, live_bytes = 0, peak_bytes = 0;
  uint64_t events = 0;
  // knobs
  int realloc_mode = RA_MOVE_ALWAYS; uint8_t junk = 0xA5; size_t gap = 16;
  // first violation
  bool bad = false; std::string cls, sig, detail;
  // stats
  uint64_t n_malloc = 0, n_calloc = 0, n_realloc = 0, n_free = 0, n_realloc_moved = 0, n_realloc_live_moved = 0;
  Fnv trace;
  void (*on_event)(SimAlloc *, int kind, size_t size, size_t off) = nullptr;  // scheduler / tracer hook
  void *hook_data = nullptr;
  FILE *dump = nullptr;  // development aid: every event as text
  struct MIR_alloc vt;
  const char *label = "ctx";

  bool map(void *fixed_addr, size_t capacity) {
    cap = capacity;
    int fl = MAP_PRIVATE | MAP_ANONYMOUS | MAP_NORESERVE;
    void *p = mmap(fixed_addr, cap, PROT_READ | PROT_WRITE, fixed_addr ? fl | MAP_FIXED_NOREPLACE : fl, -1, 0);
    if (p == MAP_FAILED || (fixed_addr && p != fixed_addr)) return false;
    base = (uint8_t *) p;
    vt.malloc = s_malloc; vt.calloc = s_calloc; vt.realloc = s_realloc; vt.free = s_free; vt.user_data = this;
    return true;
  }
  void unmap() { if (base) { SIM_UNPOISON(base, cap); munmap(base, cap); base = nullptr; } }
  // start a new run on the same arena
  void reset() {
    if (top) { SIM_UNPOISON(base, top + 4096 < cap ? top + 4096 : cap); madvise(base, (top + 4095) & ~(size_t) 4095, MADV_DONTNEED); }
    top = 0; blocks.clear(); live_blocks = live_bytes = peak_bytes = 0; events = 0; bad = false; cls.clear(); sig.clear(); detail.clear();
    n_malloc = n_calloc = n_realloc = n_free = n_realloc_moved = n_realloc_live_moved = 0; trace = Fnv();
  }
  MIR_alloc_t alloc() { return &vt; }
  // tasksim: the used prefix of the arena is inaccessible while the owning task is switched out
  size_t prot_len = 0;
  void set_accessible(bool on) {
    if (!base) return;
    if (!on) { prot_len = std::min(cap, ((top + (1u << 20)) + 4095) & ~(size_t) 4095); mprotect(base, prot_len, PROT_NONE); }
    else if (prot_len) { mprotect(base, prot_len, PROT_READ | PROT_WRITE); prot_len = 0; }
  }
  bool owns(const void *p) const { return base && (const uint8_t *) p >= base && (const uint8_t *) p < base + cap; }

  void violate(const char *c, const std::string &s, const std::string &d) { if (!bad) { bad = true; cls = c; sig = s; detail = d; } }

  Block *find(const void *p) {
    if (!owns(p)) return nullptr;
    size_t off = (const uint8_t *) p - base;
    auto it = std::lower_bound(blocks.begin(), blocks.end(), off, [](const Block &b, size_t o) { return b.off < o; });
    if (it == blocks.end() || it->off != off) return nullptr;
    return &*it;
  }
  // block containing p (for diagnostics)
  Block *containing(const void *p) {
    if (!owns(p) || blocks.empty()) return nullptr;
    size_t off = (const uint8_t *) p - base;
    auto it = std::upper_bound(blocks.begin(), blocks.end(), off, [](size_t o, const Block &b) { return o < b.off; });
    if (it == blocks.begin()) return nullptr;
    --it; return off < it->off + it->size + gap ? &*it : nullptr;
  }
  void ev(int kind, size_t size, size_t off) {
    events++; trace.byte((uint8_t) kind); trace.u64(size); trace.u64(off);
    if (dump) fprintf(dump, "%d %zu %zu\n", kind, size, off);
    if (on_event) on_event(this, kind, size, off);
  }
  void *take(size_t size, bool zero) {
    size_t off = (top + 15) & ~(size_t) 15;
    size_t end = off + size + gap;
    if (end > cap) { violate("sim_arena_exhausted", "arena", "simulator arena too small"); return nullptr; }
    top = end;
    uint8_t *p = base + off;
    SIM_UNPOISON(p, size);
    if (zero) memset(p, 0, size); else memset(p, junk, size);
    memset(p + size, 0xFA, gap);
    SIM_POISON(p + size, gap);
    blocks.push_back(Block{off, size, 1, (uint32_t) events});
    live_blocks++; live_bytes += size; if (live_bytes > peak_bytes) peak_bytes = live_bytes;
    return p;
  }
  bool redzone_ok(const Block &b) {
    SIM_UNPOISON(base + b.off + b.size, gap);
    bool ok = true; for (size_t i = 0; i < gap; i++) if (base[b.off + b.size + i] != 0xFA) { ok = false; break; }
    SIM_POISON(base + b.off + b.size, gap);
    return ok;
  }
  void release(Block *b) {
    if (!redzone_ok(*b)) violate("alloc_redzone", "overrun", fmt_blk("write past the end of block", *b));
    memset(base + b->off, 0xDD, b->size);
    SIM_POISON(base + b->off, b->size);
    b->live = 0; live_blocks--; live_bytes -= b->size;
  }
  std::string fmt_blk(const char *what, const Block &b) { char buf[200]; snprintf(buf, sizeof buf, "%s: block off=0x%zx size=%zu allocated at event %u", what, b.off, b.size, b.step); return buf; }

  void *do_malloc(size_t size) { n_malloc++; void *p = take(size, false); ev(1, size, p ? (uint8_t *) p - base : 0); return p; }
  void *do_calloc(size_t n, size_t s) { n_calloc++; void *p = take(n * s, true); ev(2, n * s, p ? (uint8_t *) p - base : 0); return p; }
  void do_free(void *p) {
    n_free++;
    if (!p) { ev(4, 0, 0); return; }
    Block *b = find(p);
    if (!b) { Block *c = containing(p); violate("alloc_foreign_ptr", "free", c ? fmt_blk("free of interior pointer", *c) : std::string("free of a pointer that is not a block of this context's arena")); ev(4, 0, 1); return; }
    if (!b->live) { violate("alloc_double_free", "free", fmt_blk("second free", *b)); ev(4, 0, 2); return; }
    size_t off = b->off, sz = b->size;
    release(b); ev(4, sz, off);
  }
  void *do_realloc(void *p, size_t old_size, size_t new_size) {
    n_realloc++;
    if (!p) { if (old_size != 0) violate("alloc_old_size", "realloc_null", "realloc(NULL) with non-zero old size"); void *q = take(new_size, false); ev(3, new_size, q ? (uint8_t *) q - base : 0); return q; }
    Block *b = find(p);
    if (!b) { violate("alloc_foreign_ptr", "realloc", "realloc of a pointer that is not a block of this context's arena"); return take(new_size, false); }
    if (!b->live) { violate("alloc_double_free", "realloc", fmt_blk("realloc of freed block", *b)); return take(new_size, false); }
    if (b->size != old_size) { char buf[160]; snprintf(buf, sizeof buf, "realloc reports old size %zu, block has %zu (new %zu)", old_size, b->size, new_size); violate("alloc_old_size", "realloc", buf); }
    size_t bsz = b->size, boff = b->off;
    bool inplace = false;
    if (new_size <= bsz) inplace = (realloc_mode != RA_MOVE_ALWAYS);
    if (inplace) {
      // shrink in place: tail becomes red zone-ish poison
      if (!redzone_ok(*b)) violate("alloc_redzone", "overrun", fmt_blk("write past the end of block", *b));
      memset(base + boff + new_size, 0xDD, bsz - new_size); SIM_POISON(base + boff + new_size, bsz - new_size);
      // keep recorded size = new_size; re-arm red zone marker right after
      // (bytes after new_size are 0xDD not 0xFA: use a per-block flag-free approach: rewrite gap bytes)
      b->size = new_size; live_bytes -= bsz - new_size;
      // the red zone check reads `gap` bytes after size: make them 0xFA (they lie inside the old block or its old red zone)
      SIM_UNPOISON(base + boff + new_size, gap); memset(base + boff + new_size, 0xFA, gap); SIM_POISON(base + boff + new_size, gap);
      ev(3, new_size, boff); return p;
    }
    size_t keep = std::min(bsz, new_size);
    void *q = take(new_size, false);  // may reallocate `blocks` -> b invalid
    if (!q) return nullptr;
    memcpy(q, p, keep);
    b = find(p); release(b); n_realloc_moved++; if (keep) n_realloc_live_moved++;
    ev(3, new_size, (uint8_t *) q - base); return q;
  }
  // end-of-run audit: poison of freed blocks intact, red zones intact; returns number of leaked blocks
  size_t audit(bool expect_empty) {
    for (auto &b : blocks) {
      if (b.live) { if (!redzone_ok(b)) violate("alloc_redzone", "overrun", fmt_blk("write past the end of block", b)); continue; }
      SIM_UNPOISON(base + b.off, b.size);
      const uint8_t *q = base + b.off; bool ok = true;
      for (size_t i = 0; i < b.size; i++) if (q[i] != 0xDD) { ok = false; break; }
      SIM_POISON(base + b.off, b.size);
      if (!ok) violate("alloc_use_after_free", "write", fmt_blk("freed block modified after free", b));
    }
    if (expect_empty && live_blocks) {
      const Block *first = nullptr; for (auto &b : blocks) if (b.live) { first = &b; break; }
      char buf[200]; snprintf(buf, sizeof buf, "%zu blocks (%zu bytes) still live after finish; first: off=0x%zx size=%zu allocated at event %u", live_blocks, live_bytes, first->off, first->size, first->step);
      violate("alloc_leak", "finish", buf);
    }
    return live_blocks;
  }
  static void *s_malloc(size_t s, void *u) { return ((SimAlloc *) u)->do_malloc(s); }
  static void *s_calloc(size_t n, size_t s, void *u) { return ((SimAlloc *) u)->do_calloc(n, s); }
  static void *s_realloc(void *p, size_t o, size_t n, void *u) { return ((SimAlloc *) u)->do_realloc(p, o, n); }
  static void s_free(void *p, void *u) { ((SimAlloc *) u)->do_free(p); }
};
}  // namespace sim
