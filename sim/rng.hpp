// Seeded PRNG: splitmix64 seeding -> xoshiro256**.  One integer decides everything.
#pragma once
#include <cstdint>
#include <cstddef>
namespace sim {
static inline uint64_t splitmix64(uint64_t &x) {
  uint64_t z = (x += 0x9e3779b97f4a7c15ULL);
  z = (z ^ (z >> 30)) * 0xbf58476d1ce4e5b9ULL;
  z = (z ^ (z >> 27)) * 0x94d049bb133111ebULL;
  return z ^ (z >> 31);
}
static inline uint64_t mix2(uint64_t a, uint64_t b) {
  uint64_t x = a ^ (b * 0x9e3779b97f4a7c15ULL + 0x632be59bd9b4e019ULL);
  uint64_t r = splitmix64(x);
  x ^= b + 0x1234567;
  return r ^ splitmix64(x);
}
struct Rng {
  uint64_t s[4];
  explicit Rng(uint64_t seed = 1) { reseed(seed); }
  void reseed(uint64_t seed) { uint64_t x = seed; for (auto &v : s) v = splitmix64(x); }
  static inline uint64_t rotl(uint64_t x, int k) { return (x << k) | (x >> (64 - k)); }
  uint64_t next() {
    uint64_t r = rotl(s[1] * 5, 7) * 9, t = s[1] << 17;
    s[2] ^= s[0]; s[3] ^= s[1]; s[1] ^= s[2]; s[0] ^= s[3]; s[2] ^= t; s[3] = rotl(s[3], 45);
    return r;
  }
  // uniform in [0,n)
  uint64_t below(uint64_t n) { return n <= 1 ? 0 : next() % n; }
  int64_t range(int64_t lo, int64_t hi) { return lo + (int64_t) below((uint64_t) (hi - lo + 1)); }
  bool chance(unsigned num, unsigned den) { return below(den) < num; }
  bool coin() { return next() & 1; }
  template <class T, size_t N> const T &pick(const T (&a)[N]) { return a[below(N)]; }
};
// FNV-1a 64 fold, used for trace hashes
struct Fnv {
  uint64_t h = 0xcbf29ce484222325ULL;
  void byte(uint8_t b) { h ^= b; h *= 0x100000001b3ULL; }
  void u64(uint64_t v) { for (int i = 0; i < 8; i++) byte((uint8_t) (v >> (8 * i))); }
  void bytes(const void *p, size_t n) { const uint8_t *b = (const uint8_t *) p; for (size_t i = 0; i < n; i++) byte(b[i]); }
  void str(const char *s) { while (*s) byte((uint8_t) *s++); byte(0); }
};
}  // namespace sim
