// simcode — the simulated code allocator (implements MIR_code_alloc_t).
// mem_map really maps memory at an address chosen by the run's placement policy; pages are PROT_READ|PROT_EXEC except
// inside a write window opened by mem_protect(WRITE_EXEC) and closed by mem_protect(READ_EXEC) (real mprotect), so a
// store to code memory outside a window faults and is attributed (class code_write_outside_window).
// Ledger: protect/unmap ranges must lie in a live region of *this* context; unmap must match its map exactly; the
// region set must be empty after MIR_finish.
#pragma once
#include <sys/mman.h>
#include <cstdint>
#include <cstdio>
#include <string>
#include <vector>
#include "rng.hpp"
extern "C" {
#include "mir-code-alloc.h"
}
#undef MAP_FAILED
#define MAP_FAILED ((void *) -1)

namespace sim {
enum Placement { P_KERNEL = 0, P_PACKED_FAR = 1, P_SPREAD_4G = 2, P_ALTERNATE = 3 };

struct SimCode {
  struct Region { uint8_t *addr; size_t len; bool live; int windows; bool open; };
  std::vector<Region> regs;
  int policy = P_PACKED_FAR; uint64_t spread_gap = 1ull << 32; uint8_t *base = nullptr; uint64_t span = 0; uint64_t next_near = 0, next_far = 0; unsigned nmaps = 0;
  bool bad = false; std::string cls, sig, detail;
  uint64_t n_map = 0, n_unmap = 0, n_protect_w = 0, n_protect_x = 0, events = 0, multi_page_windows = 0;
  Fnv trace;
  void (*on_event)(SimCode *, int kind, void *addr, size_t len) = nullptr; void *hook_data = nullptr;
  struct MIR_code_alloc vt;
  static std::vector<SimCode *> &all() { static std::vector<SimCode *> v; return v; }

  // [base, base+span) is this context's private code address range (fixed => reproducible addresses)
  void init(void *fixed_base, uint64_t span_) {
    base = (uint8_t *) fixed_base; span = span_;
    vt.mem_map = s_map; vt.mem_unmap = s_unmap; vt.mem_protect = s_protect; vt.user_data = this;
    auto &v = all(); bool found = false; for (auto p : v) if (p == this) found = true; if (!found) v.push_back(this);
  }
  void reset() {
    for (auto &r : regs) if (r.live) munmap(r.addr, r.len);
    regs.clear(); next_near = next_far = 0; nmaps = 0; bad = false; cls.clear(); sig.clear(); detail.clear();
    n_map = n_unmap = n_protect_w = n_protect_x = events = multi_page_windows = 0; trace = Fnv();
  }
  MIR_code_alloc_t alloc() { return &vt; }
  void violate(const char *c, const std::string &s, const std::string &d) { if (!bad) { bad = true; cls = c; sig = s; detail = d; } }
  Region *find(void *a, size_t len) { uint8_t *p = (uint8_t *) a; for (auto &r : regs) if (r.live && p >= r.addr && p + len <= r.addr + r.len) return &r; return nullptr; }
  Region *find_any(void *a) { uint8_t *p = (uint8_t *) a; for (auto &r : regs) if (p >= r.addr && p < r.addr + r.len) return &r; return nullptr; }
  bool owns_range(void *a) const { uint8_t *p = (uint8_t *) a; return base && p >= base && p < base + span; }
  void ev(int kind, void *a, size_t len) { events++; trace.byte((uint8_t) kind); trace.u64(a ? (uint64_t) ((uint8_t *) a - base) : 0); trace.u64(len); if (on_event) on_event(this, kind, a, len); }

  void *do_map(size_t len) {
    n_map++; size_t plen = (len + 4095) & ~(size_t) 4095; void *want = nullptr;
    switch (policy) {
    case P_KERNEL: want = nullptr; break;
    case P_PACKED_FAR: want = base + next_near; next_near += plen + 65536; break;
    case P_SPREAD_4G: want = base + next_far; next_far += spread_gap + plen; break;   // distance between consecutive holders: 1GB .. 6GB per run
    default: if (nmaps & 1) { want = base + (span / 2) + next_far; next_far += spread_gap + plen; } else { want = base + next_near; next_near += plen + 65536; } break;
    }
    nmaps++;
    void *p = mmap(want, plen, PROT_READ | PROT_EXEC, MAP_PRIVATE | MAP_ANONYMOUS | (want ? MAP_FIXED_NOREPLACE : 0), -1, 0);
    if (p == MAP_FAILED || (want && p != want)) { violate("sim_code_map_failed", "map", "simulator could not map code memory"); return nullptr; }
    regs.push_back(Region{(uint8_t *) p, plen, true, 0, false});
    ev(1, policy == P_KERNEL ? nullptr : p, len);
    return p;
  }
  int do_unmap(void *a, size_t len) {
    n_unmap++; ev(2, policy == P_KERNEL ? nullptr : a, len);
    size_t plen = (len + 4095) & ~(size_t) 4095;
    for (auto &r : regs) if (r.live && r.addr == a) {
      if (r.len != plen) { char b[160]; snprintf(b, sizeof b, "mem_unmap(%p, %zu) does not match the mapping of %zu bytes", a, len, r.len); violate("code_unmap_mismatch", "unmap", b); }
      r.live = false; munmap(r.addr, r.len); return 0;
    }
    violate("code_unmap_mismatch", "unmap", "mem_unmap of an address that is not the start of a live region of this context");
    return -1;
  }
  int do_protect(void *a, size_t len, MIR_mem_protect_t prot) {
    ev(prot == PROT_WRITE_EXEC ? 3 : 4, policy == P_KERNEL ? nullptr : a, len);
    Region *r = find(a, len);
    if (!r) { char b[160]; snprintf(b, sizeof b, "mem_protect(%p, %zu) is not inside one live code region of this context", a, len); violate("code_protect_foreign", prot == PROT_WRITE_EXEC ? "write" : "exec", b); return -1; }
    uint8_t *ps = (uint8_t *) ((uintptr_t) a & ~(uintptr_t) 4095); size_t pl = (((uintptr_t) a + len + 4095) & ~(uintptr_t) 4095) - (uintptr_t) ps;
    if (prot == PROT_WRITE_EXEC) { n_protect_w++; r->windows++; r->open = true; if (pl > 4096 && len < r->len) multi_page_windows++; return mprotect(ps, pl, PROT_READ | PROT_WRITE | PROT_EXEC); }
    n_protect_x++; r->open = false;
    if (const char *df = getenv("SIMCODE_DUMP")) { FILE *f = fopen(df, "a"); if (f) { fprintf(f, "W %p %zu ", a, len); for (size_t i = 0; i < len; i++) fprintf(f, "%02x", ((uint8_t *) a)[i]); fprintf(f, "\n"); fclose(f); } }
    if (hash_code) trace.bytes(a, len);  // the bytes just published (tasksim: generated machine code must be identical solo and interleaved)
    return mprotect(ps, pl, PROT_READ | PROT_EXEC);
  }
  bool hash_code = false;
  // tasksim: while the owning task is switched out its code memory is inaccessible to everybody else
  void set_accessible(bool on) { for (auto &r : regs) if (r.live) mprotect(r.addr, r.len, !on ? PROT_NONE : r.open ? PROT_READ | PROT_WRITE | PROT_EXEC : PROT_READ | PROT_EXEC); }
  size_t live_regions() const { size_t n = 0; for (auto &r : regs) if (r.live) n++; return n; }
  void audit(bool expect_empty) {
    if (expect_empty && live_regions()) { char b[120]; snprintf(b, sizeof b, "%zu mapped code regions not returned by mem_unmap after finish", live_regions()); violate("code_leak", "finish", b); }
    for (auto &r : regs) if (r.live && r.open) violate("code_window_left_open", "protect", "a write window on code memory was never closed by mem_protect(READ_EXEC)");
  }
  static void *s_map(size_t l, void *u) { return ((SimCode *) u)->do_map(l); }
  static int s_unmap(void *a, size_t l, void *u) { return ((SimCode *) u)->do_unmap(a, l); }
  static int s_protect(void *a, size_t l, MIR_mem_protect_t p, void *u) { return ((SimCode *) u)->do_protect(a, l, p); }
  // for SIGSEGV handlers: which context's code memory contains this address (live regions of any SimCode)?
  static SimCode *owner_of(void *a) { for (auto c : all()) if (c->find_any(a)) return c; return nullptr; }
};
}  // namespace sim
