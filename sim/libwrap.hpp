// libwrap — what the library itself calls.  libmir.so is linked with -Wl,--wrap=<sym> for the symbols below, so
// only references *from library objects* land here (libc-internal allocations of fprintf etc. are untouched).
// Each harness may install hooks; the defaults pass through to libc and count.  Include in exactly one TU.
#pragma once
#include <sys/mman.h>
#include <sys/time.h>
#include <time.h>
#include <cstdlib>
#include <cstring>
#include <cstdint>
namespace sim { namespace wrap {
struct Hooks {
  void *(*malloc_)(size_t, void *ra) = nullptr;
  void *(*calloc_)(size_t, size_t, void *ra) = nullptr;
  void *(*realloc_)(void *, size_t, void *ra) = nullptr;
  bool (*free_)(void *, void *ra) = nullptr;           // return true if absorbed
  void (*other)(const char *name, void *ra) = nullptr;  // mmap/munmap/mprotect/strdup/getenv/time calls
  void (*on_exit)(int code, void *ra) = nullptr;
  uint64_t *clock_ticks = nullptr;                      // simulated clock of the running task
  int64_t clock_jump_s = 0;
};
static Hooks hooks;
static uint64_t counts[16];
enum { W_MALLOC, W_CALLOC, W_REALLOC, W_FREE, W_STRDUP, W_MMAP, W_MUNMAP, W_MPROTECT, W_TIME, W_GETENV };
static const int64_t EPOCH0 = 1700000000;  // simulated epoch
static inline int64_t sim_now_s() { return EPOCH0 + hooks.clock_jump_s + (hooks.clock_ticks ? (int64_t) (*hooks.clock_ticks / 1000) : 0); }
}}  // namespace
extern "C" {
void *__wrap_malloc(size_t n) { using namespace sim::wrap; counts[W_MALLOC]++; void *ra = __builtin_return_address(0); if (hooks.malloc_) return hooks.malloc_(n, ra); return malloc(n); }
void *__wrap_calloc(size_t a, size_t b) { using namespace sim::wrap; counts[W_CALLOC]++; void *ra = __builtin_return_address(0); if (hooks.calloc_) return hooks.calloc_(a, b, ra); return calloc(a, b); }
void *__wrap_realloc(void *p, size_t n) { using namespace sim::wrap; counts[W_REALLOC]++; void *ra = __builtin_return_address(0); if (hooks.realloc_) return hooks.realloc_(p, n, ra); return realloc(p, n); }
void __wrap_free(void *p) { using namespace sim::wrap; counts[W_FREE]++; void *ra = __builtin_return_address(0); if (hooks.free_ && hooks.free_(p, ra)) return; free(p); }
char *__wrap_strdup(const char *s) { using namespace sim::wrap; counts[W_STRDUP]++; void *ra = __builtin_return_address(0); if (hooks.other) hooks.other("strdup", ra); size_t n = strlen(s) + 1; char *r = (char *) (hooks.malloc_ ? hooks.malloc_(n, ra) : malloc(n)); if (r) memcpy(r, s, n); return r; }
void *__wrap_mmap(void *a, size_t l, int pr, int fl, int fd, off_t off) { using namespace sim::wrap; counts[W_MMAP]++; if (hooks.other) hooks.other("mmap", __builtin_return_address(0)); return mmap(a, l, pr, fl, fd, off); }
int __wrap_munmap(void *a, size_t l) { using namespace sim::wrap; counts[W_MUNMAP]++; if (hooks.other) hooks.other("munmap", __builtin_return_address(0)); return munmap(a, l); }
int __wrap_mprotect(void *a, size_t l, int pr) { using namespace sim::wrap; counts[W_MPROTECT]++; if (hooks.other) hooks.other("mprotect", __builtin_return_address(0)); return mprotect(a, l, pr); }
time_t __wrap_time(time_t *t) { using namespace sim::wrap; counts[W_TIME]++; time_t v = (time_t) sim_now_s(); if (t) *t = v; return v; }
struct tm *__wrap_localtime_r(const time_t *t, struct tm *r) { return gmtime_r(t, r); }
struct tm *__wrap_localtime(const time_t *t) { static struct tm tmv; return gmtime_r(t, &tmv); }
int __wrap_gettimeofday(struct timeval *tv, void *) { using namespace sim::wrap; counts[W_TIME]++; tv->tv_sec = sim_now_s(); tv->tv_usec = hooks.clock_ticks ? (long) (*hooks.clock_ticks % 1000) * 1000 : 0; return 0; }
int __wrap_clock_gettime(clockid_t, struct timespec *ts) { using namespace sim::wrap; counts[W_TIME]++; ts->tv_sec = sim_now_s(); ts->tv_nsec = hooks.clock_ticks ? (long) (*hooks.clock_ticks % 1000) * 1000000 : 0; return 0; }
// exit() called by library code (MIR's fatal-error paths print a message and exit(1)): attribute it to the calling function
void __wrap_exit(int code) { using namespace sim::wrap; if (hooks.on_exit) hooks.on_exit(code, __builtin_return_address(0)); _exit(code ? code : 71); }
char *__wrap_getenv(const char *n) { using namespace sim::wrap; counts[W_GETENV]++; if (hooks.other) hooks.other("getenv", __builtin_return_address(0)); return getenv(n); }
}
