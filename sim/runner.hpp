// Deterministic-simulation runner shared by all harnesses.
//
//   <harness> --run --seed S --count N --jobs J --out DIR [--cfg JSON] [--hang-s T] [--budget-s B]
//   <harness> --emit --seed S --index I [--cfg JSON]          -> plan JSON on stdout
//   <harness> --replay FILE                                    -> RESULT line, exit 0 (ok) / 1 (violation) / 2 (infra)
//   <harness> --minimise FILE --out FILE2                      -> ddmin over plan.ops (+ harness simplifications)
//
// A run is (VERIF_SEED, run_index): run_seed = mix2(seed, index) seeds the plan generator.  The plan (explicit
// op list with faults attached to ops) is the replay file; replay never re-runs the generator.
// Runs execute in forked worker processes; a worker that dies (signal, exit, sanitizer) is attributed to its
// in-flight run through a shared-memory slot and restarted.  Logging never draws from a PRNG or reads a clock.
#pragma once
#include <sys/mman.h>
#include <sys/personality.h>
#include <sys/wait.h>
#include <sys/stat.h>
#include <fcntl.h>
#include <signal.h>
#include <time.h>
#include <unistd.h>
#include <cerrno>
#include <cstdarg>
#include <cstdio>
#include <cstdlib>
#include <cstring>
#include <algorithm>
#include <map>
#include <set>
#include <string>
#include <vector>
#include "json.hpp"
#include "rng.hpp"

namespace sim {

struct Outcome {
  bool violation = false;
  std::string cls, sig, detail;
  uint64_t trace_hash = 0;
  bool nontrivial = false;
  uint64_t ticks = 0;  // simulated time (seam events)
  void fail(const std::string &c, const std::string &s, const std::string &d) {
    if (violation) return;  // first violation wins (stable class for shrinking)
    violation = true; cls = c; sig = s; detail = d;
    for (auto &ch : cls) if (ch == ' ' || ch == '\t' || ch == '\n') ch = '_';   // class and signature are single tokens of the RESULT line
    for (auto &ch : sig) if (ch == ' ' || ch == '\t' || ch == '\n') ch = '_';
    if (sig.empty()) sig = "-";
  }
};

static std::string fmt(const char *f, ...) {
  char buf[1024]; va_list ap; va_start(ap, f); vsnprintf(buf, sizeof buf, f, ap); va_end(ap); return buf;
}

// ---- shared memory layout -------------------------------------------------------------------------------------
enum { MAX_WORKERS = 64, MAX_COUNTERS = 384, NOTE_LEN = 384, MAX_SAMPLES = 4 };
struct CounterSlot { char name[56]; uint64_t val; };
struct WorkerSlot {
  volatile int64_t inflight;      // run index being executed, -1 if none
  volatile int64_t started_ms;    // wall clock at start of that run (watchdog only; never seen by runs)
  volatile int64_t started_cpu_ms; // the worker's CPU time at start of that run (watchdog only)
  volatile int64_t done;          // runs completed
  char note[NOTE_LEN];            // free-form note written by the harness / signal handler
  CounterSlot counters[MAX_COUNTERS];
};
struct Shared {
  volatile int64_t next_index;
  volatile int64_t stop;
  volatile int64_t nontrivial;
  volatile int64_t ticks;
  volatile int64_t sample_idx[MAX_SAMPLES];
  volatile int64_t nsamples;
  WorkerSlot w[MAX_WORKERS];
};

struct ChildEnd { std::string status, cls, sig, detail; uint64_t hash = 0; };

struct RunCtx {
  WorkerSlot *slot = nullptr;
  std::map<std::string, int> cmap;
  std::map<std::string, uint64_t> local;  // used when slot == nullptr (replay)
  void attach(WorkerSlot *s) {
    slot = s; cmap.clear();
    for (int i = 0; i < MAX_COUNTERS && s->counters[i].name[0]; i++) cmap[s->counters[i].name] = i;
  }
  void count(const char *name, uint64_t n = 1) {
    if (!slot) { local[name] += n; return; }
    auto it = cmap.find(name);
    int ix;
    if (it == cmap.end()) {
      ix = (int) cmap.size();
      if (ix >= MAX_COUNTERS) return;
      strncpy(slot->counters[ix].name, name, sizeof slot->counters[ix].name - 1);
      cmap[name] = ix;
    } else ix = it->second;
    slot->counters[ix].val += n;
  }
  void note(const char *s) { if (slot) { strncpy(slot->note, s, NOTE_LEN - 1); slot->note[NOTE_LEN - 1] = 0; } else { last_note = s; } }
  std::string last_note;
};

struct Harness {
  virtual ~Harness() {}
  virtual const char *name() = 0;
  virtual Json generate(Rng &rng, const Json &cfg) = 0;              // -> {"knobs":{},"ops":[...]}
  virtual Outcome execute(const Json &plan, RunCtx &ctx) = 0;
  virtual std::vector<Json> simplify(const Json &plan) { (void) plan; return {}; }
  virtual void worker_init() {}                                       // once per worker process
  // called in the supervisor after a run died: may reclassify the death (e.g. as a side finding outside the property)
  virtual void reclassify(const Json &plan, struct ChildEnd &e) { (void) plan; (void) e; }
  virtual int hang_seconds() { return 20; }
};

static inline int64_t now_ms() { struct timespec ts; clock_gettime(CLOCK_MONOTONIC, &ts); return ts.tv_sec * 1000LL + ts.tv_nsec / 1000000; }

// CPU time (user + system) consumed so far by a process, in ms; -1 if unknown.  The watchdog measures a run by the CPU it
// burns, not by wall time, so that a loaded machine cannot turn a slow run into a "hang" (wall time is a 10x last resort).
static inline int64_t proc_cpu_ms(pid_t pid) {
  char path[64], buf[1024]; snprintf(path, sizeof path, "/proc/%d/stat", (int) pid);
  int fd = open(path, O_RDONLY); if (fd < 0) return -1;
  ssize_t n = read(fd, buf, sizeof buf - 1); close(fd); if (n <= 0) return -1; buf[n] = 0;
  const char *q = strrchr(buf, ')'); if (!q) return -1;
  unsigned long ut = 0, st = 0;
  if (sscanf(q + 1, " %*c %*d %*d %*d %*d %*d %*u %*u %*u %*u %*u %lu %lu", &ut, &st) != 2) return -1;
  static long tck = sysconf(_SC_CLK_TCK);
  return (int64_t) ((ut + st) * 1000 / (unsigned long) (tck > 0 ? tck : 100));
}
static inline int64_t self_cpu_ms() { struct timespec ts; clock_gettime(CLOCK_PROCESS_CPUTIME_ID, &ts); return ts.tv_sec * 1000LL + ts.tv_nsec / 1000000; }

static WorkerSlot *g_slot = nullptr;  // for signal handlers of harnesses
static RunCtx *g_ctx = nullptr;

static inline std::string read_file(const std::string &p) {
  FILE *f = fopen(p.c_str(), "rb"); if (!f) return "";
  std::string r; char buf[65536]; size_t n; while ((n = fread(buf, 1, sizeof buf, f)) > 0) r.append(buf, n); fclose(f); return r;
}
static inline void write_file(const std::string &p, const std::string &s) {
  FILE *f = fopen(p.c_str(), "wb"); if (!f) { perror(p.c_str()); exit(2); } fwrite(s.data(), 1, s.size(), f); fclose(f);
}
static inline const char *signame(int s) {
  switch (s) { case SIGSEGV: return "SIGSEGV"; case SIGABRT: return "SIGABRT"; case SIGBUS: return "SIGBUS"; case SIGFPE: return "SIGFPE";
  case SIGILL: return "SIGILL"; case SIGKILL: return "SIGKILL"; case SIGTRAP: return "SIGTRAP"; case SIGALRM: return "SIGALRM"; default: return "SIG?"; }
}

static inline void disable_aslr(char **argv) {
  int pers = personality(0xffffffff);
  if (pers != -1 && !(pers & ADDR_NO_RANDOMIZE)) {
    if (getenv("VERIF_NO_REEXEC")) return;
    if (personality(pers | ADDR_NO_RANDOMIZE) != -1) { setenv("VERIF_NO_REEXEC", "1", 1); execv("/proc/self/exe", argv); }
  }
}

static inline Json make_plan(Harness &h, uint64_t seed, int64_t index, const Json &cfg) {
  Rng rng(mix2(seed, (uint64_t) index));
  Json c2 = cfg; c2.set("_index", (long long) index);
  Json plan = h.generate(rng, c2);
  Json full = Json::object();
  full.set("harness", h.name()); full.set("verif_seed", (long long) seed); full.set("run_index", (long long) index);
  for (auto &p : plan.o) full.set(p.first, p.second);
  return full;
}

static inline uint64_t plan_hash(const Json &plan) {
  Fnv f; std::string s;
  for (auto &p : plan.o) if (p.first != "harness" && p.first != "verif_seed" && p.first != "run_index") { s += p.first; p.second.dump(s); }
  f.bytes(s.data(), s.size()); return f.h;
}

// Decode the way a child ended into (status, class, sig, detail)
static inline ChildEnd classify_death(int st, const char *note, bool hang) {
  ChildEnd e;
  if (hang) { e.status = "hang"; e.cls = "hang"; e.sig = "watchdog"; e.detail = note; return e; }
  e.status = "crash"; e.cls = "crash";
  if (WIFSIGNALED(st)) e.sig = signame(WTERMSIG(st));
  else e.sig = fmt("exit%d", WEXITSTATUS(st));
  e.detail = note;
  // a harness signal handler may refine class/sig by writing "CLASS=<cls> SIG=<sig> rest" into the note
  for (auto &ch : e.sig) if (ch == ' ') ch = '_';
  if (!strncmp(note, "CLASS=", 6)) {
    const char *sp = strchr(note, ' ');
    if (sp && !strncmp(sp + 1, "SIG=", 4)) {
      e.cls.assign(note + 6, sp); const char *sp2 = strchr(sp + 1, ' ');
      e.sig = sp2 ? std::string(sp + 5, sp2) : std::string(sp + 5); e.detail = sp2 ? sp2 + 1 : "";
    }
  }
  return e;
}

// Execute a plan in a forked child (isolation against crashes); returns how it ended.
static inline ChildEnd run_isolated(Harness &h, const Json &plan, int timeout_s, bool reclass = true) {
  if (getenv("VERIF_NO_RECLASS")) reclass = false;  // development aid: look at (and minimise) what a side finding really is
  static Shared *sh = nullptr;
  if (!sh) sh = (Shared *) mmap(nullptr, sizeof(Shared), PROT_READ | PROT_WRITE, MAP_SHARED | MAP_ANONYMOUS, -1, 0);
  WorkerSlot *slot = &sh->w[0];
  memset((void *) slot->note, 0, NOTE_LEN);
  int pfd[2]; if (pipe(pfd)) { perror("pipe"); exit(2); }
  fflush(stdout); fflush(stderr);
  pid_t pid = fork();
  if (pid == 0) {
    close(pfd[0]);
    RunCtx ctx; ctx.attach(slot); g_slot = slot; g_ctx = &ctx;
    h.worker_init();
    Outcome o = h.execute(plan, ctx);
    if (const char *rep = getenv("VERIF_REPEAT")) for (int k = 1; k < atoi(rep); k++) {  // development aid: does a run depend on what ran before it in the process?
      Outcome o2 = h.execute(plan, ctx);
      if (o2.trace_hash != o.trace_hash) fprintf(stderr, "VERIF_REPEAT: execution %d of the same plan in one process: trace hash %016llx, first was %016llx\n", k + 1, (unsigned long long) o2.trace_hash, (unsigned long long) o.trace_hash);
    }
    Json r = Json::object();
    r.set("violation", o.violation); r.set("cls", o.cls); r.set("sig", o.sig); r.set("detail", o.detail);
    r.set("hash", fmt("%016llx", (unsigned long long) o.trace_hash));
    std::string s = r.str(); s += "\n";
    if (write(pfd[1], s.data(), s.size()) < 0) {}
    _exit(0);
  }
  close(pfd[1]);
  std::string got; char buf[4096];
  int64_t t0 = now_ms(); bool hang = false; int st = 0; unsigned polls = 0;
  // non-blocking wait with timeout
  fcntl(pfd[0], F_SETFL, O_NONBLOCK);
  for (;;) {
    ssize_t n = read(pfd[0], buf, sizeof buf);
    if (n > 0) got.append(buf, n);
    pid_t r = waitpid(pid, &st, WNOHANG);
    if (r == pid) { while ((n = read(pfd[0], buf, sizeof buf)) > 0) got.append(buf, n); break; }
    if (((++polls & 31) == 0 && proc_cpu_ms(pid) > timeout_s * 1000LL) || now_ms() - t0 > timeout_s * 10000LL) { kill(pid, SIGKILL); waitpid(pid, &st, 0); hang = true; break; }
    usleep(300);
  }
  close(pfd[0]);
  ChildEnd e;
  if (!hang && WIFEXITED(st) && WEXITSTATUS(st) == 0 && !got.empty()) {
    Json r = Json::parse(got);
    e.status = r.at("violation").b ? "violation" : "ok";
    e.cls = r.gets("cls"); e.sig = r.gets("sig"); e.detail = r.gets("detail");
    e.hash = strtoull(r.gets("hash").c_str(), nullptr, 16);
    if (reclass && e.status == "violation") { h.reclassify(plan, e); if (e.cls.compare(0, 5, "side_") == 0) e.status = "ok"; }
    return e;
  }
  ChildEnd ce = classify_death(st, (const char *) slot->note, hang);
  if (reclass && ce.cls.compare(0, 5, "side_") != 0) h.reclassify(plan, ce);
  if (ce.cls.compare(0, 5, "side_") == 0) ce.status = "ok";
  return ce;
}

// ---- worker / supervisor ---------------------------------------------------------------------------------------
static inline void worker_loop(Harness &h, Shared *sh, int wid, uint64_t seed, int64_t count, const Json &cfg, const std::string &outdir) {
  WorkerSlot *slot = &sh->w[wid];
  RunCtx ctx; ctx.attach(slot); g_slot = slot; g_ctx = &ctx;
  h.worker_init();
  FILE *ff = fopen((outdir + fmt("/fail.%d", wid)).c_str(), "a");
  FILE *tf = getenv("VERIF_DUMP_HASHES") ? fopen((outdir + fmt("/trace.%d", wid)).c_str(), "a") : nullptr;  // selftest: (index, trace hash) per run
  FILE *hf = fopen((outdir + fmt("/hash.%d", wid)).c_str(), "ab");
  std::vector<uint64_t> hb;
  for (;;) {
    if (sh->stop) break;
    int64_t ix = __sync_fetch_and_add(&sh->next_index, 1);
    if (ix >= count) break;
    slot->note[0] = 0;
    slot->started_cpu_ms = self_cpu_ms(); slot->started_ms = now_ms();
    slot->inflight = ix;
    Json plan = make_plan(h, seed, ix, cfg);
    Outcome o = h.execute(plan, ctx);
    slot->inflight = -1;
    slot->done++;
    if (tf) { fprintf(tf, "%lld %016llx %s\n", (long long) ix, (unsigned long long) o.trace_hash, o.violation ? o.cls.c_str() : "ok"); fflush(tf); }
    __sync_fetch_and_add(&sh->ticks, (int64_t) o.ticks);
    if (o.nontrivial) {
      __sync_fetch_and_add(&sh->nontrivial, 1);
      hb.push_back(plan_hash(plan));
      if (hb.size() >= 1) { fwrite(hb.data(), 8, hb.size(), hf); fflush(hf); hb.clear(); }  // small batches: a dying worker loses its buffer
      if (sh->nsamples < MAX_SAMPLES) { int64_t k = __sync_fetch_and_add(&sh->nsamples, 1); if (k < MAX_SAMPLES) sh->sample_idx[k] = ix; }
    }
    if (o.violation) {
      ChildEnd ce; ce.status = "violation"; ce.cls = o.cls; ce.sig = o.sig; ce.detail = o.detail;
      h.reclassify(plan, ce);
      o.cls = ce.cls; o.sig = ce.sig; o.detail = ce.detail;  // (a reclassification may also name another non-side class)
      Json r = Json::object();
      r.set("index", (long long) ix); r.set("status", ce.cls.compare(0, 5, "side_") == 0 ? "side" : "violation"); r.set("cls", o.cls); r.set("sig", o.sig); r.set("detail", o.detail);
      fprintf(ff, "%s\n", r.str().c_str()); fflush(ff);
    }
  }
  if (!hb.empty()) fwrite(hb.data(), 8, hb.size(), hf);
  fclose(hf); fclose(ff);
}

static inline int mode_run(Harness &h, uint64_t seed, int64_t count, int jobs, const Json &cfg, const std::string &outdir, int64_t budget_s) {
  mkdir(outdir.c_str(), 0755);
  for (int i = 0; i < MAX_WORKERS; i++) { unlink((outdir + fmt("/fail.%d", i)).c_str()); unlink((outdir + fmt("/hash.%d", i)).c_str()); }
  Shared *sh = (Shared *) mmap(nullptr, sizeof(Shared), PROT_READ | PROT_WRITE, MAP_SHARED | MAP_ANONYMOUS, -1, 0);
  if (sh == MAP_FAILED) { perror("mmap"); return 2; }
  memset(sh, 0, sizeof *sh);
  for (int i = 0; i < MAX_WORKERS; i++) sh->w[i].inflight = -1;
  if (jobs > MAX_WORKERS) jobs = MAX_WORKERS;
  std::vector<pid_t> pids(jobs, 0);
  int64_t t0 = now_ms();
  int hang_s = h.hang_seconds();
  FILE *sf = fopen((outdir + "/fail.sup").c_str(), "w");
  int64_t crashes = 0;
  std::map<std::string, int64_t> side, side_first;  // side_first: 1 + smallest run index per side class
  auto spawn = [&](int w) {
    fflush(stdout); fflush(stderr); fflush(sf);
    pid_t p = fork();
    if (p == 0) { fclose(sf); worker_loop(h, sh, w, seed, count, cfg, outdir); _exit(0); }
    pids[w] = p;
  };
  for (int w = 0; w < jobs; w++) spawn(w);
  int alive = jobs;
  while (alive > 0) {
    usleep(2000);
    if (budget_s > 0 && !sh->stop && now_ms() - t0 > budget_s * 1000LL) sh->stop = 1;
    for (int w = 0; w < jobs; w++) {
      if (!pids[w]) continue;
      int st; bool hang = false;
      pid_t r = waitpid(pids[w], &st, WNOHANG);
      if (r == 0) {
        int64_t inf = sh->w[w].inflight;
        bool over = false;
        if (inf >= 0 && now_ms() - sh->w[w].started_ms > hang_s * 1000LL) {  // candidates only: decide by CPU time, wall time as a 10x last resort
          int64_t c0 = sh->w[w].started_cpu_ms, c1 = proc_cpu_ms(pids[w]);
          over = (c1 >= 0 && c1 - c0 > hang_s * 1000LL) || now_ms() - sh->w[w].started_ms > hang_s * 10000LL;
        }
        if (over && sh->w[w].inflight == inf) {
          kill(pids[w], SIGKILL); waitpid(pids[w], &st, 0); hang = true;
        } else continue;
      }
      pids[w] = 0;
      int64_t inf = sh->w[w].inflight;
      if (!hang && WIFEXITED(st) && WEXITSTATUS(st) == 0 && inf < 0) { alive--; continue; }
      // died during a run (or between runs: attribute to infra)
      crashes++;
      ChildEnd e = classify_death(st, (const char *) sh->w[w].note, hang);
      if (sh->w[w].inflight >= 0 && e.cls.compare(0, 5, "side_") != 0) { Json pl = make_plan(h, seed, sh->w[w].inflight, cfg); h.reclassify(pl, e); }
      if (e.cls.compare(0, 5, "side_") == 0) {  // outside the property under test: counted, never a verdict
        side[e.cls + "/" + e.sig]++; { auto &fi = side_first[e.cls + "/" + e.sig]; int64_t ix = sh->w[w].inflight; if (fi == 0 || ix + 1 < fi) fi = ix + 1; } sh->w[w].inflight = -1; sh->w[w].done++;
        if (sh->next_index < count && !sh->stop) spawn(w); else alive--;
        continue;
      }
      Json rj = Json::object();
      rj.set("index", (long long) inf); rj.set("status", e.status); rj.set("cls", e.cls); rj.set("sig", e.sig); rj.set("detail", e.detail);
      fprintf(sf, "%s\n", rj.str().c_str()); fflush(sf);
      sh->w[w].inflight = -1;
      if (crashes > 20000) { sh->stop = 1; }
      if (sh->next_index < count && !sh->stop) spawn(w); else alive--;
    }
  }
  fclose(sf);
  // merge
  Json sum = Json::object();
  sum.set("harness", h.name()); sum.set("seed", (long long) seed); sum.set("count", (long long) count); sum.set("jobs", jobs);
  int64_t done = 0; for (int w = 0; w < jobs; w++) done += sh->w[w].done;
  sum.set("completed", (long long) done);
  sum.set("attempted", (long long) std::min<int64_t>((int64_t) sh->next_index, count));
  sum.set("worker_deaths", (long long) crashes);
  sum.set("nontrivial", (long long) sh->nontrivial);
  sum.set("ticks", (long long) sh->ticks);
  sum.set("wall_s", (double) (now_ms() - t0) / 1000.0);
  sum.set("stopped_by_budget", (bool) sh->stop);
  std::map<std::string, uint64_t> cs;
  for (int w = 0; w < jobs; w++) for (int i = 0; i < MAX_COUNTERS && sh->w[w].counters[i].name[0]; i++) cs[sh->w[w].counters[i].name] += sh->w[w].counters[i].val;
  Json cj = Json::object(); for (auto &p : cs) cj.set(p.first, (unsigned long long) p.second);
  sum.set("counters", cj);

  // distinct plan hashes among nontrivial runs
  std::vector<uint64_t> hs;
  for (int w = 0; w < jobs; w++) { std::string d = read_file(outdir + fmt("/hash.%d", w)); size_t n = d.size() / 8; size_t o = hs.size(); hs.resize(o + n); memcpy(hs.data() + o, d.data(), n * 8); }
  std::sort(hs.begin(), hs.end()); hs.erase(std::unique(hs.begin(), hs.end()), hs.end());
  sum.set("distinct_nontrivial", (long long) hs.size());
  Json fl = Json::array();
  for (int w = -1; w < jobs; w++) {
    std::string d = read_file(outdir + (w < 0 ? std::string("/fail.sup") : fmt("/fail.%d", w)));
    size_t p = 0; while (p < d.size()) { size_t q = d.find('\n', p); if (q == std::string::npos) q = d.size(); if (q > p) { try { fl.push(Json::parse(d.substr(p, q - p))); } catch (...) {} } p = q + 1; }
  }
  { Json keep = Json::array(); for (auto &f : fl.a) { if (f.gets("status") == "side") { std::string k = f.gets("cls") + "/" + f.gets("sig"); side[k]++; auto &fi = side_first[k]; int64_t ix = f.geti("index"); if (fi == 0 || ix + 1 < fi) fi = ix + 1; } else keep.push(f); } fl = keep; }
  std::sort(fl.a.begin(), fl.a.end(), [](const Json &x, const Json &y) { return x.geti("index") < y.geti("index"); });
  sum.set("failures", fl);
  Json sdj = Json::object(); for (auto &p : side) sdj.set(p.first, (long long) p.second);
  sum.set("side_findings", sdj);
  { Json sfj = Json::object(); for (auto &p : side_first) sfj.set(p.first, (long long) (p.second - 1)); sum.set("side_first_index", sfj); }
  Json sj = Json::array(); int ns = (int) std::min<int64_t>((int64_t) sh->nsamples, (int64_t) MAX_SAMPLES); for (int i = 0; i < ns; i++) sj.push((long long) sh->sample_idx[i]);
  sum.set("sample_indices", sj);
  write_file(outdir + "/summary.json", sum.str());
  for (int i = 0; i < jobs; i++) { unlink((outdir + fmt("/fail.%d", i)).c_str()); unlink((outdir + fmt("/hash.%d", i)).c_str()); }
  unlink((outdir + "/fail.sup").c_str());
  printf("%s: runs=%lld nontrivial=%lld distinct=%zu failures=%zu deaths=%lld wall=%.1fs\n", h.name(), (long long) done, (long long) sh->nontrivial, hs.size(), fl.size(), (long long) crashes, (double) (now_ms() - t0) / 1000.0);
  return 0;
}

static inline void print_result(const ChildEnd &e) {
  std::string d = e.detail; for (auto &c : d) if (c == '\n') c = ' ';
  printf("RESULT status=%s class=%s sig=%s hash=%016llx detail=%s\n", e.status.c_str(), e.cls.empty() ? "-" : e.cls.c_str(), e.sig.empty() ? "-" : e.sig.c_str(), (unsigned long long) e.hash, d.c_str());
}

// ddmin over plan["ops"], then harness-specific simplifications, preserving (cls,sig)
static inline Json minimise(Harness &h, Json plan, const ChildEnd &target, int timeout_s, int *evals) {
  int64_t t_start = now_ms(); const int64_t max_ms = 60000; const int max_evals = 600;
  auto same = [&](const Json &cand) {
    (*evals)++; ChildEnd e = run_isolated(h, cand, timeout_s, false);
    if (e.status == "ok" || e.cls != target.cls || e.sig != target.sig) return false;
    if (!getenv("VERIF_NO_RECLASS")) h.reclassify(cand, e);  // only candidates that still look the same pay for the reclassification experiment
    return e.cls == target.cls && e.sig == target.sig;
  };
  auto out_of_budget = [&]() { return *evals > max_evals || now_ms() - t_start > max_ms; };
  Json *ops = plan.find("ops");
  if (ops && ops->k == Json::Arr) {
    size_t n = 2;
    while (ops->a.size() >= 1) {
      size_t len = ops->a.size(); if (n > len) n = len; if (n == 0) break;
      size_t chunk = (len + n - 1) / n; bool reduced = false;
      for (size_t st = 0; st < len; st += chunk) {
        Json cand = plan; Json *co = cand.find("ops");
        co->a.erase(co->a.begin() + st, co->a.begin() + std::min(len, st + chunk));
        if (same(cand)) { plan = cand; ops = plan.find("ops"); n = std::max<size_t>(n - 1, 2); reduced = true; break; }
      }
      if (!reduced) { if (chunk == 1) break; n = std::min(n * 2, len); }
      if (out_of_budget()) break;
    }
  }
  for (int round = 0; round < 200 && !out_of_budget(); round++) {
    bool any = false;
    for (auto &cand : h.simplify(plan)) { if (out_of_budget()) break; if (same(cand)) { plan = cand; any = true; break; } }
    if (!any) break;
  }
  return plan;
}

static inline int runner_main(int argc, char **argv, Harness &h) {
  disable_aslr(argv);
  setvbuf(stdout, nullptr, _IOLBF, 0);
  std::string mode, file, out, cfgs = "{}";
  uint64_t seed = 1; int64_t count = 1000, index = 0, budget = 0; int jobs = 1;
  if (const char *e = getenv("VERIF_SEED")) seed = strtoull(e, nullptr, 10);
  for (int i = 1; i < argc; i++) {
    std::string a = argv[i];
    auto nxt = [&]() -> const char * { if (i + 1 >= argc) { fprintf(stderr, "missing value for %s\n", a.c_str()); exit(2); } return argv[++i]; };
    if (a == "--run" || a == "--emit") mode = a;
    else if (a == "--replay" || a == "--minimise") { mode = a; file = nxt(); }
    else if (a == "--seed") seed = strtoull(nxt(), nullptr, 10);
    else if (a == "--count") count = atoll(nxt());
    else if (a == "--index") index = atoll(nxt());
    else if (a == "--jobs") jobs = atoi(nxt());
    else if (a == "--out") out = nxt();
    else if (a == "--cfg") cfgs = nxt();
    else if (a == "--budget-s") budget = atoll(nxt());
    else { fprintf(stderr, "unknown arg %s\n", a.c_str()); return 2; }
  }
  Json cfg;
  try { cfg = Json::parse(cfgs); } catch (std::exception &e) { fprintf(stderr, "bad --cfg: %s\n", e.what()); return 2; }
  if (mode == "--run") { if (out.empty()) { fprintf(stderr, "--out needed\n"); return 2; } return mode_run(h, seed, count, jobs, cfg, out, budget); }
  if (mode == "--emit") { printf("%s\n", make_plan(h, seed, index, cfg).str().c_str()); return 0; }
  if (mode == "--replay" || mode == "--minimise") {
    std::string txt = read_file(file); if (txt.empty()) { fprintf(stderr, "cannot read %s\n", file.c_str()); return 2; }
    Json plan; try { plan = Json::parse(txt); } catch (std::exception &e) { fprintf(stderr, "bad plan: %s\n", e.what()); return 2; }
    ChildEnd e = run_isolated(h, plan, h.hang_seconds());
    if (mode == "--replay") { print_result(e); return e.status == "ok" ? 0 : 1; }
    if (e.status == "ok") { printf("MINIMISE: plan does not fail\n"); return 2; }
    int evals = 0; size_t before = plan.at("ops").size();
    Json m = minimise(h, plan, e, h.hang_seconds(), &evals);
    Json mf = Json::object(); mf.set("ops", (long long) before);
    m.set("minimised_from", mf);
    Json v = Json::object(); v.set("class", e.cls); v.set("sig", e.sig);
    ChildEnd e2 = run_isolated(h, m, h.hang_seconds());
    v.set("detail", e2.detail); v.set("status", e2.status);
    m.set("violation", v); m.set("trace_hash", fmt("%016llx", (unsigned long long) e2.hash));
    write_file(out.empty() ? file + ".min" : out, m.str() + "\n");
    printf("MINIMISED ops %zu -> %zu in %d evaluations\n", before, m.at("ops").size(), evals);
    print_result(e2);
    return 0;
  }
  fprintf(stderr, "usage: %s --run|--emit|--replay F|--minimise F ...\n", argv[0]);
  return 2;
}
}  // namespace sim
