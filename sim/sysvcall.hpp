// sysvcall -- call a machine-code address with an arbitrary scalar signature (System V x86-64 ABI), written
// independently of MIR's own call marshalling (_MIR_get_ff_call / interpreter shim), which is under test.
#pragma once
#include <cstdint>
#include <cstring>
#include <string>
#include <vector>
// The simulator's own System V x86-64 caller (independent of MIR's _MIR_get_ff_call): integer registers, SSE registers and a
// prepared stack image; returns rax, xmm0 and (when asked) st(0).
struct SysvRet { int64_t rax; double xmm0; long double st0; int64_t rdx; };
extern "C" void sim_call_sysv(void *fn, const uint64_t *iregs, const uint64_t *fregs, const uint64_t *stack, size_t nwords, SysvRet *ret, long want_ld);
__asm__(".text\n.globl sim_call_sysv\n.type sim_call_sysv,@function\nsim_call_sysv:\n"
        "  push %rbp\n  mov %rsp, %rbp\n  push %rbx\n  push %r12\n"          /* rsp = rbp-16: 16-byte aligned */
        "  mov %r9, %rbx\n  mov 16(%rbp), %r12\n"                              /* rbx = ret, r12 = want_ld */
        "  lea 1(%r8), %rax\n  and $-2, %rax\n  shl $3, %rax\n  sub %rax, %rsp\n" /* room for an even number of words */
        "  xor %rax, %rax\n"
        "1: cmp %r8, %rax\n  jae 2f\n  mov (%rcx,%rax,8), %r10\n  mov %r10, (%rsp,%rax,8)\n  inc %rax\n  jmp 1b\n"
        "2: mov %rdi, %r11\n  mov %rsi, %r10\n"
        "  movq 0(%rdx), %xmm0\n  movq 8(%rdx), %xmm1\n  movq 16(%rdx), %xmm2\n  movq 24(%rdx), %xmm3\n"
        "  movq 32(%rdx), %xmm4\n  movq 40(%rdx), %xmm5\n  movq 48(%rdx), %xmm6\n  movq 56(%rdx), %xmm7\n"
        "  mov 0(%r10), %rdi\n  mov 8(%r10), %rsi\n  mov 16(%r10), %rdx\n  mov 24(%r10), %rcx\n  mov 32(%r10), %r8\n  mov 40(%r10), %r9\n"
        "  mov $8, %eax\n  call *%r11\n"
        "  mov %rax, 0(%rbx)\n  movq %xmm0, 8(%rbx)\n  mov %rdx, 32(%rbx)\n  test %r12, %r12\n  jz 3f\n  fstpt 16(%rbx)\n"
        "3: lea -16(%rbp), %rsp\n  pop %r12\n  pop %rbx\n  pop %rbp\n  ret\n"
        ".size sim_call_sysv, .-sim_call_sysv\n");
// Call `addr` as a function with parameter kinds `ps` (prog/dsl.hpp) and result kind `rt`: integer arguments from `ia`,
// floating-point arguments 2.0, 3.0, ... in their kinds.  Returns the result converted to an integer.
static int64_t call_typed(void *addr, const std::string &ps, char rt, const int64_t *ia, int64_t *second = nullptr) {
  uint64_t iregs[6] = {0}, fregs[8] = {0}; std::vector<uint64_t> st; int ni = 0, nf = 0, ai = 0, di = 0;
  for (char c : ps) {
    const char *bf = c == 'S' ? "q" : c == 'T' ? "qq" : c == 'P' ? "dd" : c == 'M' ? "qd" : c == 'N' ? "dq" : c == 'G' ? "qqq" : c == 'Q' ? "d" : c == 'H' ? "qqqq" : nullptr;  // by-value aggregates (prog/dsl.hpp)
    if (bf) {
      int64_t v = ia[ai++]; uint64_t w[4]; int n = 0, qi = 0, qd = 0;
      for (; bf[n]; n++) { uint64_t raw = (uint64_t) v + (uint64_t) n; if (bf[n] == 'q') { w[n] = raw; qi++; } else { double x = (double) (raw & 0xffff); memcpy(&w[n], &x, 8); qd++; } }
      bool in_regs = n <= 2 && ni + qi <= 6 && nf + qd <= 8;   // every eightbyte needs a register of its class, else the whole aggregate goes to memory
      for (int j = 0; j < n; j++) { if (!in_regs) st.push_back(w[j]); else if (bf[j] == 'q') iregs[ni++] = w[j]; else fregs[nf++] = w[j]; }
    } else if ((c != 'd' && c != 'f' && c != 'l')) { uint64_t v = (uint64_t) ia[ai++]; if (ni < 6) iregs[ni++] = v; else st.push_back(v); }
    else if (c == 'd') { double x = 2.0 + di++; uint64_t b; memcpy(&b, &x, 8); if (nf < 8) fregs[nf++] = b; else st.push_back(b); }
    else if (c == 'f') { float x = 2.0f + (float) di++; uint32_t b; memcpy(&b, &x, 4); uint64_t w = 0xdeadbeef00000000ull | b; if (nf < 8) fregs[nf++] = w; else st.push_back(w); }
    else { long double x = 2.0L + di++; if (st.size() & 1) st.push_back(0x5a5a5a5a5a5a5a5aull); uint64_t w[2] = {0, 0}; memcpy(w, &x, 10); st.push_back(w[0]); st.push_back(w[1]); }
  }
  SysvRet r; memset(&r, 0, sizeof r);
  sim_call_sysv(addr, iregs, fregs, st.data(), st.size(), &r, rt == 'l');
  if (second) *second = r.rdx;
  if (rt == 'd') return (int64_t) r.xmm0;
  if (rt == 'f') { float f; memcpy(&f, &r.xmm0, 4); return (int64_t) f; }
  if (rt == 'l') return (int64_t) r.st0;
  return r.rax;
}

