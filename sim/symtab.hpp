// Tiny ELF .symtab reader: maps an address inside a loaded shared object (libmir.so) to the enclosing function,
// including static functions (dladdr only knows exported ones).  Used for violation signatures.
#pragma once
#include <elf.h>
#include <link.h>
#include <fcntl.h>
#include <sys/mman.h>
#include <sys/stat.h>
#include <unistd.h>
#include <cstring>
#include <string>
#include <vector>
#include <algorithm>
namespace sim {
struct SymTab {
  struct Sym { uint64_t addr, size; std::string name; };
  std::vector<Sym> syms; uint64_t base = 0, text_lo = 0, text_hi = 0; std::string path;
  uint64_t relro_end = 0, rw_lo = 0, rw_hi = 0;  // writable image after RELRO: [relro_end, rw_hi)
  struct Find { const char *needle; SymTab *st; };
  static int cb(struct dl_phdr_info *info, size_t, void *data) {
    Find *f = (Find *) data;
    if (!info->dlpi_name || !strstr(info->dlpi_name, f->needle)) return 0;
    SymTab *st = f->st; st->base = info->dlpi_addr; st->path = info->dlpi_name;
    for (int i = 0; i < info->dlpi_phnum; i++) {
      const ElfW(Phdr) &ph = info->dlpi_phdr[i];
      if (ph.p_type == PT_LOAD && (ph.p_flags & PF_X)) { st->text_lo = st->base + ph.p_vaddr; st->text_hi = st->text_lo + ph.p_memsz; }
      if (ph.p_type == PT_LOAD && (ph.p_flags & PF_W)) { st->rw_lo = st->base + ph.p_vaddr; st->rw_hi = st->rw_lo + ph.p_memsz; }
      if (ph.p_type == PT_GNU_RELRO) st->relro_end = st->base + ph.p_vaddr + ph.p_memsz;
    }
    return 1;
  }
  bool load(const char *needle) {
    Find f{needle, this};
    if (!dl_iterate_phdr(cb, &f)) return false;
    int fd = open(path.c_str(), O_RDONLY); if (fd < 0) return false;
    struct stat sb; fstat(fd, &sb);
    uint8_t *m = (uint8_t *) mmap(nullptr, sb.st_size, PROT_READ, MAP_PRIVATE, fd, 0); close(fd);
    if (m == MAP_FAILED) return false;
    ElfW(Ehdr) *eh = (ElfW(Ehdr) *) m; ElfW(Shdr) *sh = (ElfW(Shdr) *) (m + eh->e_shoff);
    for (int i = 0; i < eh->e_shnum; i++) if (sh[i].sh_type == SHT_SYMTAB) {
      ElfW(Sym) *sy = (ElfW(Sym) *) (m + sh[i].sh_offset); size_t n = sh[i].sh_size / sizeof(ElfW(Sym));
      const char *str = (const char *) (m + sh[sh[i].sh_link].sh_offset);
      for (size_t k = 0; k < n; k++) { unsigned t = ELF64_ST_TYPE(sy[k].st_info); if ((t == STT_FUNC || t == STT_OBJECT) && sy[k].st_value) syms.push_back(Sym{base + sy[k].st_value, sy[k].st_size, str + sy[k].st_name}); }
    }
    munmap(m, sb.st_size);
    std::sort(syms.begin(), syms.end(), [](const Sym &a, const Sym &b) { return a.addr < b.addr; });
    return !syms.empty();
  }
  bool in_text(const void *p) const { return (uint64_t) p >= text_lo && (uint64_t) p < text_hi; }
  bool in_image(const void *p) const { return (uint64_t) p >= base && (uint64_t) p < rw_hi; }
  std::string name(const void *p) const {
    uint64_t a = (uint64_t) p;
    auto it = std::upper_bound(syms.begin(), syms.end(), a, [](uint64_t x, const Sym &s) { return x < s.addr; });
    if (it == syms.begin()) return "?";
    --it; if (a >= it->addr + std::max<uint64_t>(it->size, 1) + 64) return "?";
    std::string n = it->name; size_t d = n.find('.'); if (d != std::string::npos) n = n.substr(0, d);  // strip .constprop/.isra
    return n;
  }
};
}  // namespace sim
